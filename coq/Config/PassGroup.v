(* Model M8: CVise.parse_pass_group_dict (cvise/cvise.py:76-143), after the fix that validates an
   entry before filtering it, and the documented selection rules as a specification. *)
From Coq Require Import List String ZArith Bool.
Import ListNotations.
Open Scope string_scope.

Record entry := mke {
  e_pass : option string; e_arg : option string;
  e_include : option (list string); e_exclude : option (list string);
  e_c : bool; e_renaming : bool; e_maxt : option Z
}.
Definition group := list (string * list entry).      (* the JSON object: category -> entries *)

Inductive perr := MissingCategory (c:string) | InvalidPass (c:string) | UnknownPass (n:string) | UnknownOption (o:string).
Inductive res (A:Type) := Ok (a:A) | Err (e:perr).
Arguments Ok {A}. Arguments Err {A}.

Record selected := mks { s_pass : string; s_class : string; s_arg : option string; s_maxt : option Z }.

Record popts := mkpo {
  o_options : list string;      (* active options: slow, windows *)
  o_removed : list string;      (* --remove-pass, split at commas: str(pass) values *)
  o_not_c : bool; o_renaming : bool
}.

Section Parse.
Variable pass_table : list (string * string).     (* pass_name_mapping: name -> class name *)
Variable valid_options : list string.             (* AbstractPass.Option values *)

Fixpoint assoc {A} (k:string) (l:list (string * A)) : option A :=
  match l with [] => None | (k', v) :: t => if String.eqb k k' then Some v else assoc k t end.
Definition mem (x:string) (l:list string) : bool := existsb (String.eqb x) l.

(* parse_options: first unknown option raises PassOptionError *)
Fixpoint first_unknown (opts:list string) : option string :=
  match opts with [] => None | o :: t => if mem o valid_options then first_unknown t else Some o end.
Definition intersects (a b:list string) : bool := existsb (fun x => mem x b) a.

(* str(pass_instance) before max_transforms is set: Class or Class::arg *)
Definition pass_str (cls:string) (arg:option string) : string :=
  match arg with Some a => cls ++ "::" ++ a | None => cls end.

Definition include_pass (e:entry) (active:list string) : bool :=
  (match e_include e with None => true | Some l => intersects l active end) &&
  (match e_exclude e with None => true | Some l => negb (intersects l active) end).

(* one entry: Err, or Ok None (filtered out), or Ok (Some selected) *)
Definition parse_entry (cat:string) (o:popts) (e:entry) : res (option selected) :=
  match (match e_include e with Some l => first_unknown l | None => None end) with
  | Some bad => Err (UnknownOption bad)
  | None =>
  match (match e_exclude e with Some l => first_unknown l | None => None end) with
  | Some bad => Err (UnknownOption bad)
  | None =>
  match e_pass e with
  | None => Err (InvalidPass cat)
  | Some name =>
    match assoc name pass_table with
    | None => Err (UnknownPass name)
    | Some cls =>
      if negb (include_pass e (o_options o)) then Ok None
      else if mem (pass_str cls (e_arg e)) (o_removed o) then Ok None
      else if o_not_c o && e_c e then Ok None
      else if negb (o_renaming o) && e_renaming e then Ok None
      else Ok (Some (mks name cls (e_arg e) (e_maxt e)))
    end
  end end end.

Fixpoint parse_entries (cat:string) (o:popts) (es:list entry) : res (list selected) :=
  match es with
  | [] => Ok []
  | e :: t =>
    match parse_entry cat o e with
    | Err x => Err x
    | Ok r => match parse_entries cat o t with
              | Err x => Err x
              | Ok l => Ok (match r with Some s => s :: l | None => l end)
              end
    end
  end.

Definition categories := ["first"; "main"; "last"].

Fixpoint parse_cats (cats:list string) (g:group) (o:popts) : res (list (string * list selected)) :=
  match cats with
  | [] => Ok []
  | c :: t =>
    match assoc c g with
    | None => Err (MissingCategory c)
    | Some es =>
      match parse_entries c o es with
      | Err x => Err x
      | Ok l => match parse_cats t g o with
                | Err x => Err x
                | Ok r => Ok ((c, l) :: r)
                end
      end
    end
  end.
Definition parse (g:group) (o:popts) := parse_cats categories g o.

(* ---------- specification: the documented rules ---------- *)
Definition entry_wf (e:entry) : bool :=
  (match e_include e with Some l => forallb (fun x => mem x valid_options) l | None => true end) &&
  (match e_exclude e with Some l => forallb (fun x => mem x valid_options) l | None => true end) &&
  (match e_pass e with Some n => match assoc n pass_table with Some _ => true | None => false end | None => false end).
Definition wellformed (g:group) : bool :=
  forallb (fun c => match assoc c g with Some es => forallb entry_wf es | None => false end) categories.

Definition keep (o:popts) (e:entry) : bool :=
  match e_pass e with
  | None => false
  | Some n =>
    match assoc n pass_table with
    | None => false
    | Some cls =>
      (match e_include e with None => true | Some l => intersects l (o_options o) end) &&
      (match e_exclude e with None => true | Some l => negb (intersects l (o_options o)) end) &&
      negb (mem (pass_str cls (e_arg e)) (o_removed o)) &&
      negb (o_not_c o && e_c e) && negb (negb (o_renaming o) && e_renaming e)
    end
  end.
Definition to_selected (e:entry) : option selected :=
  match e_pass e with
  | Some n => match assoc n pass_table with Some cls => Some (mks n cls (e_arg e) (e_maxt e)) | None => None end
  | None => None
  end.
Fixpoint filter_map {A B} (f:A -> option B) (l:list A) : list B :=
  match l with [] => [] | a :: t => match f a with Some b => b :: filter_map f t | None => filter_map f t end end.
Definition spec_cat (o:popts) (es:list entry) : list selected :=
  filter_map (fun e => if keep o e then to_selected e else None) es.
Definition spec_filter (g:group) (o:popts) : list (string * list selected) :=
  map (fun c => (c, spec_cat o (match assoc c g with Some es => es | None => [] end))) categories.
End Parse.
