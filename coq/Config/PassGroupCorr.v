From Coq Require Import List String ZArith Bool Ascii.
Import ListNotations.
From CV Require Import Base.Corr Config.PassGroup.
From CV Require Gen.PassGroups.

Fixpoint enc_str (s:string) : list Z :=
  match s with EmptyString => [] | String c t => Z.of_nat (nat_of_ascii c) :: enc_str t end.
Definition enc_string (s:string) : list Z := Z.of_nat (String.length s) :: enc_str s.
Definition enc_sel (s:selected) : list Z :=
  enc_string (s_pass s) ++ enc_string (s_class s) ++ zopt enc_string (s_arg s) ++ zopt (fun z => [z]) (s_maxt s).
Definition enc_err (e:perr) : list Z :=
  match e with
  | MissingCategory c => 1%Z :: enc_string c
  | InvalidPass c => 2%Z :: enc_string c
  | UnknownPass n => 3%Z :: enc_string n
  | UnknownOption o => 4%Z :: enc_string o
  end.
Definition run_parse (t:group * popts) : list Z :=
  let '(g, o) := t in
  match parse Gen.PassGroups.pass_table Gen.PassGroups.valid_options g o with
  | Ok cats => 0%Z :: flat_map (fun cl : string * list selected => Z.of_nat (List.length (snd cl)) :: flat_map enc_sel (snd cl)) cats
  | Err e => 1%Z :: enc_err e
  end.
