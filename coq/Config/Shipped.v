(* Decidable well-formedness of shipped pass-group rows against the generated tables (C14). *)
From Coq Require Import List String ZArith Bool Ascii Arith.
Import ListNotations.
Open Scope string_scope.
From CV Require Import Config.PassGroup.

Definition is_digit (c:ascii) : bool := let n := nat_of_ascii c in Nat.leb 48 n && Nat.leb n 57.
Fixpoint parse_nat_acc (s:string) (acc:nat) : option nat :=
  match s with
  | EmptyString => Some acc
  | String c t => if is_digit c then parse_nat_acc t (10 * acc + (nat_of_ascii c - 48)) else None
  end.
Definition parse_nat (s:string) : option nat :=
  match s with EmptyString => None | _ => parse_nat_acc s 0 end.

Fixpoint strip_prefix (p s:string) : option string :=
  match p, s with
  | EmptyString, _ => Some s
  | String a p', String b s' => if Ascii.eqb a b then strip_prefix p' s' else None
  | _, _ => None
  end.

Section Row.
Variable pass_table : list (string * string).
Variable py_args : list (string * list string).
Variable registrations : list (string * string * bool).
Variable clex_exact : list string.
Variable clex_prefixed : list (string * nat * nat).
Variable lines_literals : list string.

Definition registered (name:string) : option bool :=
  match find (fun r => String.eqb (fst (fst r)) name) registrations with Some r => Some (snd r) | None => None end.

(* clex/driver.c main: exact mode names, or prefix + decimal count within (lo, hi] *)
Definition clex_mode_ok (arg:string) : bool :=
  mem arg clex_exact ||
  existsb (fun t => let '(p, lo, hi) := t in
                    match strip_prefix p arg with
                    | Some rest => match parse_nat rest with Some n => Nat.ltb lo n && Nat.leb n hi | None => false end
                    | None => false end) clex_prefixed.

Definition all_digits (s:string) : bool := match parse_nat s with Some _ => true | None => false end.

Definition row_ok (e:entry) : bool :=
  match e_pass e with
  | None => false
  | Some p =>
    match assoc p pass_table with
    | None => false
    | Some _ =>
      if String.eqb p "clang" then
        match e_arg e with Some a => match registered a with Some _ => true | None => false end | None => false end
      else if String.eqb p "clangbinarysearch" then
        match e_arg e with Some a => match registered a with Some multi => multi | None => false end | None => false end
      else if String.eqb p "clex" then
        match e_arg e with Some a => clex_mode_ok a | None => false end
      else if String.eqb p "lines" then
        (* a nesting level handed to topformflat, or a string that lines.py itself treats specially ("None": no formatter) *)
        match e_arg e with Some a => all_digits a || (negb (all_digits a) && mem a lines_literals) | None => false end
      else match assoc p py_args with
           | Some allowed => match e_arg e with Some a => mem a allowed | None => false end
           | None => true        (* passes that take no argument *)
           end
    end
  end.

Definition group_rows (g:group) : list entry := flat_map snd g.
End Row.

Fixpoint nodup_str (l:list string) : bool :=
  match l with [] => true | x :: t => negb (mem x t) && nodup_str t end.

Fixpoint prefix_of (p s:string) : bool :=
  match p, s with
  | EmptyString, _ => true
  | String a p', String b s' => Ascii.eqb a b && prefix_of p' s'
  | _, _ => false
  end.
