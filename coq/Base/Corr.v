(* Correspondence plumbing: the harness writes (input, expected-output) pairs observed on the
   implementation; Coq evaluates the model on each input and returns the indices where the
   model's output differs.  Outputs are flattened to list Z by the model-side encoders. *)
From Coq Require Import List ZArith Bool NArith.
Import ListNotations.

Fixpoint zlist_eqb (a b:list Z) : bool :=
  match a, b with
  | [], [] => true
  | x :: a', y :: b' => Z.eqb x y && zlist_eqb a' b'
  | _, _ => false
  end.

(* -99 in a model output = the model ran out of its fuel (FFuel / OutOfFuel): such a case decides
   nothing; it is reported as k + 1000000 so that the harness can count it separately *)
Definition out_of_fuel (l:list Z) : bool := existsb (Z.eqb (-99)) l.
Fixpoint mismatches_from {A} (f:A -> list Z) (cases:list (A * list Z)) (k:N) : list N :=
  match cases with
  | [] => []
  | (x, out) :: t =>
    let r := f x in
    if zlist_eqb r out then mismatches_from f t (N.succ k)
    else if out_of_fuel r then (k + 1000000)%N :: mismatches_from f t (N.succ k)
    else k :: mismatches_from f t (N.succ k)
  end.
Definition mismatches {A} (f:A -> list Z) (cases:list (A * list Z)) : list N := mismatches_from f cases 0%N.

Definition zb (b:bool) : Z := if b then 1%Z else 0%Z.
Definition zn (n:nat) : Z := Z.of_nat n.
Definition zopt {A} (f:A -> list Z) (o:option A) : list Z :=
  match o with None => [(-1)%Z] | Some x => 1%Z :: f x end.
