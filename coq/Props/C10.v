(* C10  The pass cache is transparent.  Statements only; proofs in Driver/SpecProofs.v. *)
From Coq Require Import List Arith Bool ZArith NArith Lia.
Import ListNotations.
From CV Require Import Driver.Round Driver.RoundProofs Driver.Outcome Driver.RunPass Driver.RunPassProofs
  Driver.InvProofs Driver.SpecProofs Driver.Script.

(* The whole reduction refines a specification that has no schedule, no cache, no parallelism and
   no report-directory state: final files, start gate and exit are the specification's; with the
   cache off so is the accepted sequence.  `well_behaved` is the C02 contract plus finite
   enumerations; the key function must separate passes (repr: class, arg, max_transforms). *)
Theorem C10_reduce_refines_spec :
  forall (St : Type) (test : disk -> tout) (rc : rcfg) (allp : list (pass St)),
  (forall p q, In p allp -> In q allp -> p_key St p = p_key St q -> p = q) ->
  g_die (r_g rc) = false ->
  forall (first main last : list (pass St)) (m : mst),
  incl first allp -> incl main allp -> incl last allp ->
  Forall (well_behaved St test rc) first -> Forall (well_behaved St test rc) main ->
  Forall (well_behaved St test rc) last -> m_cache m = [] ->
  let '(m', e, a) := reduce St test rc first main last m in
  let '(s', es, as_) := reduce_spec St test rc first main last (m_disk m, m_start m) in
  m_disk m' = fst s' /\ e = es /\ (r_no_cache rc = true -> a = as_).
Proof. exact reduce_refines. Qed.

(* Cache on versus --no-cache: same final files and same exit, for any number of test cases (the
   key is the joint content), any two parallelism levels, any two schedules and any two initial
   report-directory states. *)
Theorem C10_cache_transparent :
  forall (St : Type) (test : disk -> tout) (rc : rcfg) (first main last : list (pass St)) (m1 m2 : mst) (n1 n2 : nat),
  let allp := first ++ main ++ last in
  (forall p q, In p allp -> In q allp -> p_key St p = p_key St q -> p = q) ->
  g_die (r_g rc) = false -> Forall (well_behaved St test rc) allp ->
  m_disk m1 = m_disk m2 -> m_start m1 = m_start m2 -> m_cache m1 = [] -> m_cache m2 = [] ->
  let cache_on := reduce St test (with_run false n1 rc) first main last m1 in
  let cache_off := reduce St test (with_run true n2 rc) first main last m2 in
  m_disk (fst (fst cache_on)) = m_disk (fst (fst cache_off)) /\ snd (fst cache_on) = snd (fst cache_off).
Proof. exact cache_transparent. Qed.

(* Soundness of replay (no contract needed): every cache entry replays to the original or an
   interesting set (from C01). *)
Theorem C10_cache_replay_sound :
  forall (St : Type) (test : disk -> tout) (d0 : disk) (rc : rcfg) (p : pass St) (m : mst),
  new_sane St p -> Inv test d0 (m_disk m) -> CacheOK test d0 (m_cache m) ->
  CacheOK test d0 (m_cache (pr_m (run_pass St test rc p m))).
Proof. intros. eapply run_pass_inv; eauto. Qed.

(* Non-vacuity: a group that meets the same content again (the same pass twice in main, and a
   main loop of two iterations): the cache is hit and both runs end on the same file. *)
Definition ex_rules : list (list atom * tout) := [([Has 0 97%N], Exit 0)].
Definition ex_rc (nocache:bool) := mkrcfg (mkcfg 2 false false None false None 500 20 10 250) nocache 0 false 1 1 40.
Definition ex_main := [mksp 1 0 [Del 0; Del 1; Del 2] 0 None; mksp 2 0 [DelCh 99%N] 1 None; mksp 1 0 [Del 0; Del 1; Del 2] 0 None].
Example C10_example :
  let run nc sch := reduce nat (run_rules ex_rules) (ex_rc nc) [] (map sp_pass ex_main) []
                          (mkm [[99;98;97;99;98]%N] [] (xinit 0 0) sch None) in
  m_disk (fst (fst (run false [1;0;1;1]))) = m_disk (fst (fst (run true [0;0;1;0;1;1;1]))) /\
  m_disk (fst (fst (run false [1;0;1;1]))) = [[97]%N] /\
  2 <= length (m_cache (fst (fst (run false [1;0;1;1])))).
Proof. vm_compute. repeat split; auto; lia. Qed.
