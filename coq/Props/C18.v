(* C18  The clex helper never crashes and edits tokens as specified.  Statements only.
   Model: Clex/Regex.v (the scanner flex derives from clex.l: longest match, first rule, comment
   action, over the rule list regenerated from clex.l) + Clex/Driver.v (driver.c; define /
   replace_macro at index level with an explicit out-of-bounds result).  Inputs are byte strings
   without NUL (C strings). *)
From Coq Require Import List NArith ZArith Bool Arith Lia.
Import ListNotations.
From CV Require Import Clex.Regex Clex.RegexSem Clex.LexProofs Clex.Driver Clex.DriverProofs Clex.ClexFacts Gen.ClexRules.

(* exactly one of the two protocol codes, and no read outside the token array, for every mode,
   index and input (the model of define / replace_macro follows the code as repaired by 47ede41) *)
Theorem C18_exit_codes_and_bounds :
  forall m idx s, clex clex_rules m idx s <> OOB /\
                  (exit_code (clex clex_rules m idx s) = Some 51%Z \/ exit_code (clex clex_rules m idx s) = Some 71%Z).
Proof. intros m idx s. split; [apply clex_total|apply clex_exit_codes]. Qed.

(* the scanner: the lexemes partition the input, each is non-empty (|s|+1 steps suffice), a token is a
   match of a rule carrying its kind, nothing is echoed *)
Theorem C18_scanner_partitions_input :
  forall s l, lex clex_rules s = LexOk l -> lex_text l = s.
Proof. intros s l H. eapply tokenize_partition. exact H. Qed.
Theorem C18_scanner_classes :
  forall s l, bytes s -> lex clex_rules s = LexOk l ->
  forall x, In x l -> l_class x <> LEcho /\ token_by clex_rules x /\ (l_class x = LDrop -> dropped_by clex_rules x).
Proof.
  intros s l B H x I. split; [eapply (tokenize_no_echo _ clex_covers); eauto|]. eapply tokenize_classes; eauto.
Qed.
(* the scanner is flex's: the chosen rule has the longest match at the current position — no rule
   matches a longer prefix — and it is the first rule among those with a match of that length *)
Theorem C18_longest_match_first_rule :
  forall s n a, best_rule clex_rules s = Some (n, a) ->
  exists pre r post, clex_rules = pre ++ (r, a) :: post /\ longest r s = Some n /\
    (forall k, k <= length s -> matchb r (firstn k s) = true -> k <= n) /\
    (forall r' a' m, In (r', a') pre -> longest r' s = Some m -> m < n) /\
    (forall r' a' m, In (r', a') post -> longest r' s = Some m -> m <= n).
Proof.
  intros s n a H. destruct (best_rule_spec _ _ _ _ H) as (pre & r & post & E & L & P1 & P2).
  exists pre, r, post. split; [exact E|]. split; [exact L|]. split; [apply longest_maximal; exact L|]. split; assumption.
Qed.

(* the matcher the scanner model is built on decides the textbook (relational) meaning of the patterns,
   for every pattern and every byte string: derivatives with the simplifying constructors lose nothing *)
Theorem C18_matcher_decides_regex_semantics : forall w r, matchb r w = true <-> matches r w.
Proof. exact matchb_spec. Qed.

(* rule selection against that meaning: the chosen prefix is matched by the chosen rule, no rule of the
   table matches a longer prefix of the rest of the input, and no earlier rule matches the chosen prefix *)
Theorem C18_rule_selection_semantic :
  forall s n a, best_rule clex_rules s = Some (n, a) ->
  exists pre r post, clex_rules = pre ++ (r, a) :: post /\ 1 <= n <= length s /\ matches r (firstn n s) /\
    (forall r' a' k, In (r', a') clex_rules -> 1 <= k <= length s -> matches r' (firstn k s) -> k <= n) /\
    (forall r' a', In (r', a') pre -> ~ matches r' (firstn n s)).
Proof. exact (best_rule_semantic clex_rules). Qed.

(* the comment action (two nested loops over input()) consumes exactly up to the first "*/" *)
Theorem C18_comment_action : forall s, eat s = find_close s.
Proof. exact eat_first_close. Qed.

(* print mode: the input with line continuations and block comments dropped; an unterminated comment
   gives STOP with no output *)
Theorem C18_print :
  forall s, bytes s ->
  (exists out, clex clex_rules MPrint 0 s = Exit false out /\ out = [] /\ lex clex_rules s = LexStop) \/
  (exists l, lex clex_rules s = LexOk l /\ lex_text l = s /\
             clex clex_rules MPrint 0 s = Exit true (lex_text (filter is_tok l)) /\
             forall x, In x l -> is_tok x = false -> dropped_by clex_rules x).
Proof. exact clex_print. Qed.
Theorem C18_only_continuations_and_comments_are_dropped :
  filter (fun ra => match snd ra with ATok _ => false | _ => true end) clex_rules =
  [(Seq (Seq (Chr [(92, 92)]%N) (Star (Chr [(9, 9); (32, 32)]%N))) (Chr [(10, 10)]%N), ASkip);
   (Seq (Chr [(47, 47)]%N) (Chr [(42, 42)]%N), AComment)].
Proof. exact clex_non_token_rules. Qed.

(* rm-toks-N at index idx: produces output iff idx < number of non-blank tokens; what is printed is a
   subsequence of the tokens whose non-blank members are exactly those of rank outside idx..idx+N-1;
   without an instance nothing is removed *)
Theorem C18_rm_toks :
  forall n idx ts,
  (fst (rm_toks_go n idx ts 0 false) = true <-> idx < length (nbs ts)) /\
  subseq (snd (rm_toks_go n idx ts 0 false)) ts /\
  nbs (snd (rm_toks_go n idx ts 0 false)) = firstn idx (nbs ts) ++ skipn (idx + n) (nbs ts) /\
  (length (nbs ts) <= idx -> snd (rm_toks_go n idx ts 0 false) = ts).
Proof.
  intros n idx ts. split; [|split; [|split]].
  - rewrite rm_toks_ok. lia.
  - apply rm_toks_subseq.
  - rewrite rm_toks_nbs by (intros; try discriminate; lia). rewrite !Nat.sub_0_r. reflexivity.
  - intros L. apply rm_toks_all_kept. lia.
Qed.

(* rm-tok-pattern-N at index idx: window start = idx / 2^(N-1), pattern = 1 + 2 * (idx mod 2^(N-1)) read as
   bits, least significant first: output iff the start is below the number of non-blank tokens; blank
   tokens are never removed; the output is a subsequence; the non-blank token of rank w is removed iff
   start <= w < start + N and bit (w - start) of the pattern is set (bit 0 always is) *)
Theorem C18_rm_tok_pattern :
  forall n idx ts, 1 <= n ->
  let start := idx / 2 ^ (n - 1) in
  let pat := bits 8 (1 + 2 * (idx mod 2 ^ (n - 1))) in
  ((exists out, rm_pattern n idx ts = Exit true out) <-> start < length (nbs ts)) /\
  filter blank (snd (rm_pat_go n start ts 0 false pat)) = filter blank ts /\
  subseq (snd (rm_pat_go n start ts 0 false pat)) ts /\
  nbs (snd (rm_pat_go n start ts 0 false pat)) = pat_spec start n pat (nbs ts) 0.
Proof.
  intros n idx ts N start pat. split; [apply rm_pattern_ok; exact N|]. split; [apply rm_pat_blanks|].
  split; [apply rm_pat_subseq|]. apply rm_pat_nbs. left. repeat split; lia.
Qed.

(* for every mode the indices that produce output are a prefix 0..k-1 of the naturals *)
Theorem C18_ok_indices_are_a_prefix :
  forall m idx ts, (match m with MRmPattern n => 1 <= n | _ => True end) ->
  ok (run_mode m idx ts) -> forall j, j <= idx -> ok (run_mode m j ts).
Proof. exact run_mode_prefix. Qed.

(* non-vacuity: an input with a comment, a continuation, a string and a define *)
Example C18_example :
  clex_case (1, 2, 1, [105;110;116;32;97;32;61;32;34;120;34;59;47;42;99;42;47;98;92;10;99;10]%N) =
  [51; 11; 105;110;116;32;34;120;34;59;98;99;10]%Z.
Proof. vm_compute. reflexivity. Qed.

(* non-vacuity of the semantic statements: on "ab1 " the identifier rule is chosen with the three-byte
   prefix, and that prefix is in the pattern's language *)
Example C18_semantic_example :
  exists a r, best_rule clex_rules [97;98;49;32]%N = Some (3, a) /\ In (r, a) clex_rules /\ matches r [97;98;49]%N.
Proof.
  destruct (best_rule clex_rules [97;98;49;32]%N) as [[n a]|] eqn:E; [|vm_compute in E; discriminate].
  assert (n = 3) by (vm_compute in E; congruence). subst n.
  destruct (C18_rule_selection_semantic _ _ _ E) as (pre & r & post & R & _ & M & _).
  exists a, r. split; [reflexivity|]. split; [rewrite R; apply in_or_app; right; left; reflexivity|exact M].
Qed.
