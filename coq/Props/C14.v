(* C14  Shipped schedules name only passes, arguments and tool behaviours that exist.
   Every table is regenerated from /repo on each run (tools/gen/{passgroups,clangdelta,pyconv}.py);
   the statements are finite and proved by computation over the whole table. *)
From Coq Require Import List String ZArith Bool.
Import ListNotations.
Open Scope string_scope.
From CV Require Import Config.PassGroup Config.Shipped.
From CV Require Gen.PassGroups Gen.ClangDelta Gen.PyConv.

Definition row_ok_now :=
  row_ok Gen.PassGroups.pass_table Gen.PyConv.py_args Gen.ClangDelta.registrations
         Gen.PyConv.clex_exact Gen.PyConv.clex_prefixed Gen.PyConv.lines_literals.

(* every entry of every shipped group: known pass; argument accepted by the Python pass; clang /
   clangbinarysearch arguments registered in clang_delta (with MultipleRewrites for the binary
   search driver); clex arguments are modes of driver.c within its asserted bounds *)
Theorem C14_shipped_rows_exist :
  forallb (fun ng => forallb row_ok_now (group_rows (snd ng))) Gen.PassGroups.shipped_groups = true.
Proof. vm_compute. reflexivity. Qed.

(* each transformation name is registered once *)
Theorem C14_registrations_nodup :
  nodup_str (map (fun r => fst (fst r)) Gen.ClangDelta.registrations) = true.
Proof. vm_compute. reflexivity. Qed.

(* ... and unconditionally: no registration sits inside a preprocessor conditional, so every build of
   clang_delta knows every name the shipped groups use *)
Theorem C14_registrations_unconditional : Gen.ClangDelta.conditional_registrations = [].
Proof. vm_compute. reflexivity. Qed.

(* exit codes: exit(-1) of clang_delta is 255 and ErrorInvalidCounter is 1 — exactly the codes the
   driver maps to STOP (clang.py: 255 and 1; clangbinarysearch.py: 255); clex's OK / STOP are the
   two codes clex.py tests for *)
Theorem C14_exit_codes_agree :
  existsb (Z.eqb Gen.ClangDelta.cxx_exit_generic) Gen.PyConv.py_clang_stop = true /\
  existsb (Z.eqb Gen.ClangDelta.cxx_exit_invalid_counter) Gen.PyConv.py_clang_stop = true /\
  Gen.PyConv.py_clangbin_stop = [Gen.ClangDelta.cxx_exit_generic] /\
  Gen.PyConv.py_clex_codes = [Gen.ClangDelta.clex_ok; Gen.ClangDelta.clex_stop] /\
  Gen.PyConv.py_clex_stop = [Gen.ClangDelta.clex_stop].
Proof. vm_compute. repeat split; reflexivity. Qed.

(* the instance-count message: what TransformationManager prints is the literal prefix of the
   regex used on stdout, and the stderr line filter is a prefix of it *)
Theorem C14_count_message_agrees :
  Gen.PyConv.py_count_regex_prefix = Gen.ClangDelta.cxx_count_msg /\
  prefix_of Gen.PyConv.py_count_stderr_prefix Gen.ClangDelta.cxx_count_msg = true.
Proof. vm_compute. split; reflexivity. Qed.

(* Non-vacuity: the checker rejects a misspelt transformation, a single-instance transformation
   under clangbinarysearch and an out-of-range clex mode *)
Example C14_checker_rejects :
  row_ok_now (mke (Some "clang") (Some "remove-unused-functon") None None true false None) = false /\
  row_ok_now (mke (Some "clangbinarysearch") (Some "simplify-if") None None true false None) = false /\
  row_ok_now (mke (Some "clex") (Some "rm-tok-pattern-9") None None false false None) = false /\
  row_ok_now (mke (Some "clex") (Some "rm-toks-16") None None false false None) = true.
Proof. vm_compute. repeat split; reflexivity. Qed.
