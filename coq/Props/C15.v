(* C15  clang_delta is driven so that instance ranges tile the instances exactly.
   Statements only.  The tool is an oracle; these are facts about how it is driven. *)
From Coq Require Import List Arith Bool ZArith Lia.
Import ListNotations.
From CV Require Import Cursor.BinaryState Cursor.BinaryProofs Driver.Outcome Passes.ClangBin Passes.ClangBinProofs.

(* --counter = index+1, --to-counter = end(): always 1 <= counter <= to-counter <= the count
   the cursor holds (which is derived from the tool's last report). *)
Theorem C15_argv_within_reported :
  forall (X : Type) (l : list X) (s : bst) (n : nat), WFb l s n ->
  argv_counter s = index s + 1 /\ argv_to_counter s = end_ s /\
  1 <= argv_counter s /\ argv_counter s <= argv_to_counter s /\ argv_to_counter s <= instances s.
Proof. intros X l s n W. destruct (argv_in_range l s n W) as (A & B & C). repeat split; auto. Qed.

(* Under all-reject every sweep tiles the instances: consecutive requests are contiguous
   (next counter = previous to-counter + 1) or a sweep ends at N and the next starts at 1; the
   first request starts at 1 and the last ends at N; single instances are all requested. *)
Theorem C15_sweeps_tile :
  forall (X : Type) (l : list X), l <> [] ->
  exists log, reduce (@rej X) l = Done l log /\ chain (length l) 0 log /\ last_stop 0 log = length l /\
    (forall p, p < length l -> In (p, S p, length l, false) log) /\
    (forall e, In e log -> start_of e + 1 <= stop_of e /\ stop_of e <= length l).
Proof.
  intros X l NE. destruct (reduce_rej_spec l NE) as (log & R & C & L & A).
  exists log. repeat split; auto; eapply chain_ranges; eauto.
Qed.

(* After an accepted removal the driver continues from the tool-reported count minus the removed
   chunk, at the same index. *)
Theorem C15_continue_after_accept :
  forall s reported, reported - real_chunk s <> 0 -> index s < reported - real_chunk s ->
  cbs_advance_on_success s reported = Some (mkb (index s) (chunk s) (reported - real_chunk s)).
Proof. exact cbs_continue. Qed.

(* ... and when the tool had clamped the range (it holds fewer instances than the chunk that was
   asked for: reported <= removed chunk) nothing is left: the pass ends instead of continuing with a
   meaningless count (the code as repaired by 109bf84: max(reported - chunk, 0)) *)
Theorem C15_clamped_accept_ends :
  forall s reported, reported <= real_chunk s -> cbs_advance_on_success s reported = None.
Proof.
  intros s reported H. unfold cbs_advance_on_success, advance_on_success.
  replace (reported - real_chunk s) with 0 by lia. reflexivity.
Qed.

(* Output of a tool run that exited non-zero is never used: the file is untouched and the result
   is STOP (255; also 1 for the plain clang pass) or ERROR. *)
Theorem C15_nonzero_never_candidate :
  forall (A : Type) (rc : Z) (stdout cur : A), rc <> 0%Z ->
  (snd (cbs_result rc stdout cur) = cur /\
   (fst (cbs_result rc stdout cur) = STOP \/ fst (cbs_result rc stdout cur) = ERROR) /\
   (fst (cbs_result rc stdout cur) = STOP <-> rc = 255%Z)) /\
  (snd (clang_result rc stdout cur) = cur /\
   (fst (clang_result rc stdout cur) = STOP \/ fst (clang_result rc stdout cur) = ERROR)).
Proof. intros A rc o c H. split; [apply cbs_nonzero; auto|apply clang_nonzero; auto]. Qed.

(* The automatically chosen standard offers the most instances; the newest wins ties. *)
Theorem C15_best_std_argmax :
  forall counts : list (nat * Z),
  (forall s c, In (s, c) counts -> (0 <= c)%Z) -> counts <> [] ->
  exists pre s post, counts = pre ++ (s, snd (best_std counts)) :: post /\ fst (best_std counts) = Some s /\
    (forall s' c', In (s', c') counts -> (c' <= snd (best_std counts))%Z) /\
    (forall s' c', In (s', c') post -> (c' < snd (best_std counts))%Z).
Proof. exact best_std_argmax. Qed.

(* a count query that hangs, fails or prints no count yields no cursor: without a count to stay within, no range is
   requested; a reported count n > 0 yields the cursor (0, n, n), whose first request is 1..n *)
Theorem C15_no_count_no_cursor :
  cbs_new QTimeout = None /\ cbs_new QError = None /\ cbs_new QNoCount = None /\ cbs_new (QCount 0) = None /\
  forall n, (0 < n)%Z -> cbs_new (QCount n) = Some (0, n, n)%Z.
Proof.
  repeat split. intros n H. unfold cbs_new, query_count. destruct (Z.eqb_spec n 0); [lia|reflexivity].
Qed.

Example C15_example : best_std [(0, 3%Z); (1, 5%Z); (2, 0%Z); (3, 5%Z); (4, 4%Z); (5, 0%Z)] = (Some 3, 5%Z).
Proof. vm_compute. reflexivity. Qed.
