(* C06  Delta-debugging passes are complete: nothing removable is left untried.
   Only statements closed by `exact`; proofs live in Cursor/BinaryProofs.v. *)
From Coq Require Import List Arith Bool NArith Lia.
Import ListNotations.
From CV Require Import Cursor.BinaryState Cursor.BinaryProofs Cursor.IfsCursor Passes.Gcda Passes.GcdaProofs Passes.Edit Passes.EditProofs Passes.LinesRoundtrip.

(* Every proposed range is inside the current instance list, for EVERY verdict function
   (of step number, current list and cursor), every list; the run ends within (n+1)(n+2)
   candidates and never grows the list. *)
Theorem C06_ranges_in_bounds :
  forall (X:Type) (test : nat -> list X -> bst -> bool) (l:list X),
  exists l' log, reduce test l = Done l' log /\
    Forall (fun e => let '(i, e', inst, _) := e in i < e' /\ e' <= inst) log /\
    length log <= S (length l) * S (S (length l)) /\ length l' <= length l.
Proof. exact (@reduce_total). Qed.

(* Monotone test (interesting iff every required instance is kept): the result is exactly
   the required subset, in original order — every n, every required predicate. *)
Theorem C06_one_minimal_monotone :
  forall (X:Type) (req : X -> bool) (l:list X),
  exists log, reduce (ok_mono req) l = Done (filter req l) log.
Proof. exact (@reduce_exact). Qed.

(* A completed run that accepted nothing proposed the removal of every single instance
   (so none can be removed), and its sweeps tile 0..n without gap or overlap. *)
Theorem C06_singles_all_tried :
  forall (X:Type) (test : nat -> list X -> bst -> bool) (l l':list X) log,
  l <> [] -> reduce test l = Done l' log ->
  forallb (fun e => negb (accepted e)) log = true ->
  l' = l /\ chain (length l) 0 log /\ last_stop 0 log = length l /\
  forall p, p < length l -> In (p, S p, length l, false) log.
Proof. exact (@noaccept_singles). Qed.

(* After an accepted removal the instance now at `index` is the next one offered. *)
Theorem C06_no_skip_after_accept :
  forall s n', n' <> 0 ->
  (index s < n' -> advance_on_success s n' = Some (mkb (index s) (chunk s) n')) /\
  (n' <= index s -> advance_on_success s n' = advance (mkb (index s) (chunk s) n')).
Proof. intros s n' H; split; [exact (aos_keeps_index s n' H)|exact (aos_past_end s n' H)]. Qed.

(* Non-vacuity: a concrete run with mixed verdicts, and the monotone theorem's instance. *)
(* #if blocks: IfPass resolves each range first to 0, then to 1; when every candidate is rejected its cursors are exactly the
   ranges of the binary-search enumeration, each with both values - so every single conditional is tried both ways *)
Theorem C06_ifs_tries_both_values :
  forall (fuel : nat) (s : bst),
  ifs_enum (2 * fuel) (s, false) = flat_map (fun r => [(r, false); (r, true)]) (enum fuel s).
Proof. exact ifs_enum_spec. Qed.

(* gcda functions.  For every header, every list of function records (any sizes) and every cursor inside the record list,
   the candidate GCDABinaryPass.transform builds from the byte offsets gcov-dump reports is the file with exactly the
   records [index, end) removed: the byte-level slicing IS the record-level cut of the binary-search loop. *)
Theorem C06_gcda_candidate_is_record_cut :
  forall (B:Type) (hdr:list B) (recs:list (list B)) (s:bst), index s < length recs ->
  gcda_transform (gfile hdr recs) (offsets (length hdr) recs) s = gfile hdr (cut recs (index s) (end_ s)).
Proof. exact (@gcda_transform_cut). Qed.

(* ... and it is strictly shorter than the file when no record is empty (the pass's own assert never fires) *)
Theorem C06_gcda_candidate_shorter :
  forall (B:Type) (hdr:list B) (recs:list (list B)) (s:bst),
  index s < end_ s -> end_ s <= length recs -> Forall (fun r => r <> []) recs ->
  length (gcda_transform (gfile hdr recs) (offsets (length hdr) recs) s) < length (gfile hdr recs).
Proof. exact (@gcda_transform_shorter). Qed.

(* This pass restarts with a fresh cursor after every accepted removal (advance_on_success = new).  Its loop still ends
   within the fuel for every record list and, for a monotone test, leaves exactly the required records. *)
Theorem C06_gcda_exact_monotone :
  forall (B:Type) (req : list B -> bool) (recs:list (list B)),
  exists log, gcda_run (ok_mono req) recs = Done (filter req recs) log.
Proof. exact (@gcda_run_exact). Qed.

Example C06_example_gcda :
  gcda_transform (gfile [9;9] [[1];[2;2];[3;3;3];[4]]) (offsets 2 [[1];[2;2];[3;3;3];[4]]) (mkb 1 2 4) = [9;9;1;4]
  /\ exists log, gcda_run (ok_mono (fun r => Nat.eqb (hd 0 r) 2)) [[1];[2;2];[3;3;3];[4]] = Done [[2;2]] log.
Proof. split; [vm_compute; reflexivity|eexists; vm_compute; reflexivity]. Qed.

(* lines / line markers.  The binary-search loop above works on instance lists; the passes work on bytes and re-count
   their instances in the new file after every accepted removal.  For every text and every range: the candidate of
   LinesPass, read again, has exactly the lines of the file minus [i, e) - so the count the pass continues with and the
   instances it then offers are those of the loop model (cut) ... *)
Theorem C06_lines_candidate_is_line_cut :
  forall (t : text) (i e : nat), i <= e ->
  lines (lines_transform t i e) = cut (lines t) i e /\ lines_transform t i e = concat (cut (lines t) i e).
Proof. exact lines_candidate_is_cut. Qed.

(* ... and the line markers left in the candidate of LineMarkersPass are the markers of the file minus [i, e), for every
   marker predicate; no other line is touched (C07_selected_lines_removed). *)
Theorem C06_markers_candidate_is_marker_cut :
  forall (ismark : text -> bool) (t : text) (i e : nat), i <= e ->
  filter ismark (lines (markers_transform ismark t i e)) = cut (filter ismark (lines t)) i e.
Proof. exact markers_candidate_is_cut. Qed.

(* The loop the pass really runs works on bytes: the verdict sees the current text, an accepted candidate replaces it, and
   the count given to advance_on_success is re-counted from the new text.  For every verdict function (of step, lines and
   cursor) and every text it computes exactly what the instance-level loop computes on the list of lines, log included -
   so the four theorems at the top of this file are statements about the bytes of the file ... *)
Theorem C06_lines_byte_loop_is_instance_loop :
  forall (test : nat -> list text -> bst -> bool) (t : text),
  breduce test t = as_bytes (reduce test (lines t)).
Proof. exact breduce_is_reduce. Qed.

(* ... in particular, for a monotone test the final text is exactly the required lines, in order. *)
Theorem C06_lines_final_text_monotone :
  forall (req : text -> bool) (t : text),
  exists log, breduce (ok_mono req) t = Some (concat (filter req (lines t)), log).
Proof. exact breduce_exact. Qed.

(* The same for LineMarkersPass, for every marker predicate, verdict function and text: the byte-level loop (markers
   re-counted from each accepted candidate) produces the log of the instance-level loop on the marker list, the markers
   left in the final text are that loop's result, and every line that is not a marker is still there, in order. *)
Theorem C06_markers_byte_loop_is_instance_loop :
  forall (ismark : text -> bool) (test : nat -> list text -> bst -> bool) (n fuel k : nat) (t : text) (s : bst) (log : list entry),
  WFb (marks ismark t) s n ->
  mb_agree ismark t (mbrun ismark test fuel k t s log) (run test fuel k (marks ismark t) s log).
Proof. intros ismark test n. exact (mbrun_is_run ismark test n). Qed.

(* ... and from the cursor LineMarkersPass.new creates (where that hypothesis holds) the whole byte-level run agrees with
   the instance-level reduction of the marker list. *)
Theorem C06_markers_byte_reduction_is_instance_reduction :
  forall (ismark : text -> bool) (test : nat -> list text -> bst -> bool) (t : text),
  mb_agree ismark t (mbreduce ismark test t) (reduce test (marks ismark t)).
Proof. exact mbreduce_is_reduce. Qed.

Example C06_example_markers_run :
  let ism := fun l => N.eqb (hd 0%N l) 35 in
  mbreduce ism (ok_mono (fun l => N.eqb (nth 1 l 0%N) 50)) [35;49;10;120;10;35;50;10;35;51;10;121]%N
  = Some ([120;10;35;50;10;121]%N, [(0,3,3,false);(0,1,3,true);(0,1,2,false);(1,2,2,true)]).
Proof. vm_compute. reflexivity. Qed.

Example C06_example_lines :
  lines (lines_transform [97;10;98;10;10;99]%N 1 3) = [[97;10];[99]]%N /\
  filter (fun l => N.eqb (hd 0%N l) 35) (lines (markers_transform (fun l => N.eqb (hd 0%N l) 35) [35;10;98;10;35;49;10;35]%N 1 2))
  = [[35;10];[35]]%N.
Proof. vm_compute. auto. Qed.

Example C06_example_mono :
  reduce (ok_mono (fun x => Nat.eqb x 2 || Nat.eqb x 5)) [0;1;2;3;4;5;6] =
  Done [2;5] [(0,7,7,false);(0,3,7,false);(3,6,7,false);(6,7,7,true);(0,1,6,true);(0,1,5,true);
              (0,1,4,false);(1,2,4,true);(1,2,3,true);(1,2,2,false)].
Proof. vm_compute. reflexivity. Qed.
