(* C06  Delta-debugging passes are complete: nothing removable is left untried.
   Only statements closed by `exact`; proofs live in Cursor/BinaryProofs.v. *)
From Coq Require Import List Arith Bool Lia.
Import ListNotations.
From CV Require Import Cursor.BinaryState Cursor.BinaryProofs Cursor.IfsCursor.

(* Every proposed range is inside the current instance list, for EVERY verdict function
   (of step number, current list and cursor), every list; the run ends within (n+1)(n+2)
   candidates and never grows the list. *)
Theorem C06_ranges_in_bounds :
  forall (X:Type) (test : nat -> list X -> bst -> bool) (l:list X),
  exists l' log, reduce test l = Done l' log /\
    Forall (fun e => let '(i, e', inst, _) := e in i < e' /\ e' <= inst) log /\
    length log <= S (length l) * S (S (length l)) /\ length l' <= length l.
Proof. exact (@reduce_total). Qed.

(* Monotone test (interesting iff every required instance is kept): the result is exactly
   the required subset, in original order — every n, every required predicate. *)
Theorem C06_one_minimal_monotone :
  forall (X:Type) (req : X -> bool) (l:list X),
  exists log, reduce (ok_mono req) l = Done (filter req l) log.
Proof. exact (@reduce_exact). Qed.

(* A completed run that accepted nothing proposed the removal of every single instance
   (so none can be removed), and its sweeps tile 0..n without gap or overlap. *)
Theorem C06_singles_all_tried :
  forall (X:Type) (test : nat -> list X -> bst -> bool) (l l':list X) log,
  l <> [] -> reduce test l = Done l' log ->
  forallb (fun e => negb (accepted e)) log = true ->
  l' = l /\ chain (length l) 0 log /\ last_stop 0 log = length l /\
  forall p, p < length l -> In (p, S p, length l, false) log.
Proof. exact (@noaccept_singles). Qed.

(* After an accepted removal the instance now at `index` is the next one offered. *)
Theorem C06_no_skip_after_accept :
  forall s n', n' <> 0 ->
  (index s < n' -> advance_on_success s n' = Some (mkb (index s) (chunk s) n')) /\
  (n' <= index s -> advance_on_success s n' = advance (mkb (index s) (chunk s) n')).
Proof. intros s n' H; split; [exact (aos_keeps_index s n' H)|exact (aos_past_end s n' H)]. Qed.

(* Non-vacuity: a concrete run with mixed verdicts, and the monotone theorem's instance. *)
(* #if blocks: IfPass resolves each range first to 0, then to 1; when every candidate is rejected its cursors are exactly the
   ranges of the binary-search enumeration, each with both values - so every single conditional is tried both ways *)
Theorem C06_ifs_tries_both_values :
  forall (fuel : nat) (s : bst),
  ifs_enum (2 * fuel) (s, false) = flat_map (fun r => [(r, false); (r, true)]) (enum fuel s).
Proof. exact ifs_enum_spec. Qed.

Example C06_example_mono :
  reduce (ok_mono (fun x => Nat.eqb x 2 || Nat.eqb x 5)) [0;1;2;3;4;5;6] =
  Done [2;5] [(0,7,7,false);(0,3,7,false);(3,6,7,false);(6,7,7,true);(0,1,6,true);(0,1,5,true);
              (0,1,4,false);(1,2,4,true);(1,2,3,true);(1,2,2,false)].
Proof. vm_compute. reflexivity. Qed.
