(* C03  Every pass and the whole reduction terminate.  Statements only.
   A pass run is a transition system over configurations (file, cursor) with one transition per
   verdict; the theorems hold for EVERY verdict sequence (nat -> bool). *)
From Coq Require Import List Arith Bool ZArith NArith Lia String.
Import ListNotations.
From CV Require Import Cursor.BinaryState Cursor.BinaryProofs Passes.Termination
  Passes.TermCorr Driver.Round Driver.Outcome Driver.OutcomeInv Driver.RunPass Driver.MainLoopProofs.
From CV Require Gen.PeepTables.

(* any measure that strictly decreases on every step bounds the number of candidates *)
Theorem C03_measure_bounds_candidates :
  forall (C : Type) (step : C -> bool -> option C) (mu : C -> nat),
  (forall c b c', step c b = Some c' -> mu c' < mu c) ->
  forall fuel verdict k c, mu c < fuel ->
  exists n, run C step fuel verdict k c = Some n /\ n <= k + mu c + 1.
Proof. exact run_terminates. Qed.

(* binary-search passes (lines, line markers, ifs, clang_delta ranges, gcda): at most (n+1)(n+2)
   candidates for every verdict function, provided an accepted removal shrinks the instance list
   (true by construction for lines / line markers: C07; an assumption about the tool otherwise) *)
Theorem C03_binary_terminates :
  forall (X : Type) (test : nat -> list X -> bst -> bool) (l : list X),
  exists l' log, BinaryState.reduce test l = BinaryState.Done l' log /\ List.length log <= S (List.length l) * S (S (List.length l)).
Proof. intros X test l. destruct (reduce_total test l) as (l' & log & R & _ & L & _). exists l', log. split; [exact R|exact L]. Qed.

(* balanced / ternary: cursor = start of the current match; measure 2*len - pos *)
Theorem C03_position_cursor_terminates :
  forall step, pos_ok step -> forall verdict c, p_pos c < p_len c ->
  exists n, run pcur step (S (2 * p_len c)) verdict 0 c = Some n /\ n <= 2 * p_len c - p_pos c + 1.
Proof. exact pos_cursor_terminates. Qed.

(* ints / special: cursor = index into the modification list, recomputed after an accepted step;
   a potential of the text (its length for a/b/c and special b/c; the number of x/X characters for
   ints::d, which may lengthen the text; the number of 'c' characters for special::a, which does)
   strictly decreases on accept *)
Theorem C03_list_cursor_terminates :
  forall B step, list_ok B step -> forall verdict c, l_idx c < l_lim c -> l_lim c <= B ->
  exists n, run lcur step (S (S (l_phi c) * S B)) verdict 0 c = Some n /\ n <= S (l_phi c) * S B + 1.
Proof. exact list_cursor_terminates. Qed.

Theorem C03_list_cursor_terminates_self :
  forall step, list_ok_self step -> forall verdict c, l_lim c <= l_phi c ->
  exists n, run lcur step (S (S (l_phi c) * S (l_phi c))) verdict 0 c = Some n /\ n <= S (l_phi c) * S (l_phi c) + 1.
Proof. exact list_cursor_terminates_self. Qed.

(* blank / comments: a small counter over a text that shrinks on every accepted candidate *)
Theorem C03_counter_cursor_terminates :
  forall step, counter_ok step -> forall verdict c,
  exists n, run kcur step (S (k_len c + k_rem c)) verdict 0 c = Some n /\ n <= k_len c + k_rem c + 1.
Proof. exact counter_cursor_terminates. Qed.

(* peephole passes whose every rule shrinks its match (peep::a, peep::c): (position, rule) cursor *)
Theorem C03_peep_cursor_terminates :
  forall lim step, peep_ok lim step -> forall verdict c, r_pos c < r_len c -> r_rule c < lim ->
  exists n, run rcur step (S (r_len c * S lim)) verdict 0 c = Some n /\ n <= r_len c * S lim + 1.
Proof. exact peep_cursor_terminates. Qed.
(* ... and every rule of peep::a does: replacement shorter than the minimum width of its parts
   (table regenerated from peep.py; widths computed by CPython's regex parser) *)
Theorem C03_peep_a_rules_shrink :
  forallb (fun r => snd (fst r) <? fst (fst r)) Gen.PeepTables.peep_a_rules = true.
Proof. vm_compute. reflexivity. Qed.
(* peep::b — PARTIAL: all rules shrink except `class -> struct` (grows) and the two rules that turn
   a one-character variable into '0' / '1' (size-neutral); for those termination rests on the
   weighted argument of DESIGN.md (not proved) and is exercised by the harness. *)
Theorem C03_peep_b_rules_shrink_partial :
  map (fun ir => fst ir)
      (filter (fun ir => negb (snd (fst (snd ir)) <? fst (fst (snd ir))))
              (combine (seq 0 (List.length Gen.PeepTables.peep_b_rules)) Gen.PeepTables.peep_b_rules)) = [3; 55; 56].
Proof. vm_compute. reflexivity. Qed.

(* indent (formatter pass): whatever the formatter does to the text and whatever the verdicts, at most two transform calls *)
Theorem C03_indent_terminates :
  forall (changes : nat -> bool) verdict,
  exists m, run (nat * nat) (fun ck b => match indent_step (changes (snd ck)) (fst ck) b with
                                          | Some c' => Some (c', S (snd ck)) | None => None end)
                3 verdict 0 (0, 0) = Some m /\ m <= 2.
Proof. exact indent_terminates. Qed.

(* includes (counter cursor): at most 2n+2 candidates for n include lines *)
Theorem C03_includes_terminates :
  forall verdict n, exists m, run ccur includes_step (S (2 * n + 2)) verdict 0 (mkcc n 1) = Some m /\ m <= 2 * n + 2.
Proof. exact includes_terminates. Qed.

(* the main loop: a new iteration only after a strict decrease of the total size, hence at most
   size0 + 1 iterations for ANY pass list; more fuel never changes the result *)
Theorem C03_main_loop_terminates :
  forall (St : Type) (test : disk -> tout) (rc : rcfg) (orig : Z) (ps : list (pass St)) (f1 f2 : nat) (m : mst) (acc : list disk),
  Z.to_nat (total_size (m_disk m)) < f1 -> Z.to_nat (total_size (m_disk m)) < f2 ->
  main_loop St test f1 rc orig ps m acc = main_loop St test f2 rc orig ps m acc.
Proof. exact main_loop_fuel_enough. Qed.

(* a round of candidates that never succeed is abandoned after GIVEUP + N + 1 of them *)
Theorem C03_giveup_bound :
  forall (g : cfg) (cands : list cand) (sch : sched) (x : xst),
  g_nogiveup g = false -> 1 <= g_N g ->
  (forall i, g_giveup g <= i -> success (cand_at cands i) = false /\ c_timeout (cand_at cands i) = false) ->
  r_sched _ (cround g cands sch x) <= g_giveup g + g_N g + 1.
Proof. exact cround_giveup. Qed.

(* the boolean checkers the harness evaluates (inside Coq) on every observed transition of the real
   pass objects imply the hypotheses above *)
Theorem C03_checkers_sound :
  (forall step, (forall c b c', step c b = Some c' -> pos_chk c b c' = true) -> pos_ok step) /\
  (forall step, (forall c b c', step c b = Some c' -> list_chk c b c' = true) -> list_ok_self step) /\
  (forall lim step, (forall c b c', step c b = Some c' -> peep_chk lim c b c' = true) -> peep_ok lim step) /\
  (forall step, (forall c b c', step c b = Some c' -> counter_chk c b c' = true) -> counter_ok step).
Proof. exact (conj pos_chk_ok (conj list_chk_ok (conj peep_chk_ok counter_chk_ok))). Qed.

(* the hypotheses are satisfiable by concrete step functions *)
Example C03_hypotheses_satisfiable : pos_ok toy_pos /\ list_ok_self toy_list /\ peep_ok 3 toy_peep /\ counter_ok toy_counter.
Proof. exact (conj toy_pos_ok (conj toy_list_ok (conj toy_peep_ok toy_counter_ok))). Qed.
