(* C04  Originals are preserved and only the named test cases are touched.  Statements only. *)
From Coq Require Import List String ZArith Bool NArith.
Import ListNotations.
Open Scope string_scope.
From CV Require Import Fs.Fs Fs.FsProofs.

(* For every initial working directory (any files, sub-directory paths, modes, pre-existing .orig
   files) and every sequence of the writes C-Vise performs after the backup (commits and mode
   restores on the named test cases, report directories under its reserved prefixes):
   - X.orig afterwards holds exactly the bytes and attributes X had at the start, unless an X.orig
     existed, which is then untouched;
   - every path that is not a test case, not an X.orig created here, and not under cvise_bug_* /
     cvise_extra_* is unchanged. *)
Theorem C04_originals_and_frame :
  forall (tcs : list string) (ops : list wop) (w : wdir),
  forallb (wop_ok tcs) ops = true ->
  (forall x, In x tcs -> ~ In (orig_of x) tcs /\ reserved (orig_of x) = false) ->
  (forall x m, In x tcs -> lookup x w = Some m ->
     lookup (orig_of x) (reduce_fs tcs ops w) =
     match lookup (orig_of x) w with Some old => Some old | None => Some m end) /\
  (forall p, ~ In p tcs -> reserved p = false -> (forall x, In x tcs -> p <> orig_of x) ->
     lookup p (reduce_fs tcs ops w) = lookup p w).
Proof. exact reduce_fs_spec. Qed.

(* restore_mode at the end of a completed pass gives a test case its recorded mode back *)
Theorem C04_modes_restored :
  forall x md w c m0, lookup x w = Some (c, m0) -> lookup x (apply_wop w (Restore x md)) = Some (c, md).
Proof. exact restore_mode_spec. Qed.

Example C04_example :
  let w := [("a.c", ([1;2;3]%N, 420%N)); ("a.c.orig", ([9]%N, 384%N)); ("sub/b.c", ([4;5]%N, 493%N)); ("notes.txt", ([7]%N, 420%N))] in
  let final := reduce_fs ["a.c"; "sub/b.c"]
                 [Commit "a.c" [1]%N 384%N; Restore "a.c" 420%N; Commit "sub/b.c" [4]%N 384%N; Restore "sub/b.c" 493%N;
                  Report "cvise_bug_0" [("a.c", ([1]%N, 420%N))]] w in
  lookup "a.c.orig" final = Some ([9]%N, 384%N) /\ lookup "sub/b.c.orig" final = Some ([4;5]%N, 493%N) /\
  lookup "notes.txt" final = Some ([7]%N, 420%N) /\ lookup "a.c" final = Some ([1]%N, 420%N).
Proof. vm_compute. repeat split; reflexivity. Qed.
