(* C08  No temporary directories or processes are left behind (bookkeeping part).
   Statements only.  OS-level facts (a directory is really gone, a process is really dead) are
   observed by the harness on the real code, not proved. *)
From Coq Require Import List Arith Bool ZArith NArith Lia Permutation.
Import ListNotations.
From CV Require Import Driver.Round Driver.RoundInv Driver.Outcome Driver.OutcomeInv Driver.PidQueue.

(* Folder bookkeeping of a round: every scheduled candidate's folder is accounted for exactly
   once — still held by self.futures at return (release_folders removes those) or already
   released by release_future — for every schedule, N and fault assignment, also when the
   round ends by an exception. Hence `assert not self.temporary_folders` cannot fail and no
   folder is released twice or forgotten. *)
Theorem C08_round_folders :
  forall (g : cfg) (cands : list cand) (sch : sched) (x : xst),
  Permutation (seq 0 (r_sched _ (cround g cands sch x)))
              (r_futs _ (cround g cands sch x) ++ r_released _ (cround g cands sch x)).
Proof. exact cround_folders. Qed.

(* kill_pid_queue: after draining the queue, exactly the pids with a STARTED event and no later
   FINISHED event are killed (each with its descendants). *)
Theorem C08_pidq_kill_complete :
  forall (evs : list pev) (p : nat),
  In p (active_pids evs) <-> (exists pre post, evs = pre ++ Started p :: post /\ ~ In (Finished p) post).
Proof. exact active_pids_spec. Qed.

Example C08_example :
  active_pids [Started 5; Started 7; Finished 5; Started 9; Finished 9; Started 5] = [7; 5] \/
  active_pids [Started 5; Started 7; Finished 5; Started 9; Finished 9; Started 5] = [5; 7].
Proof. vm_compute. auto. Qed.
