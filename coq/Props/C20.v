(* C20  The pass statistics report what actually happened.  Statements only. *)
From Coq Require Import List Arith Bool ZArith NArith Lia.
Import ListNotations.
From CV Require Import Driver.Round Driver.RoundInv Driver.Outcome Driver.OutcomeInv Driver.RunPass
  Driver.LimitsProofs Driver.Stats.

(* "worked" equals the number of accepted transformations (any schedule, N, faults, files). *)
Theorem C20_worked_eq_accepted :
  forall (St : Type) (test : disk -> tout) (rc : rcfg) (p : pass St) (m : mst),
  pr_worked (run_pass St test rc p m) = length (pr_acc (run_pass St test rc p m)).
Proof. exact run_pass_worked_eq_accepted. Qed.

(* "failed" never exceeds "total executed": per round at most one failure is recorded per
   scheduled candidate, including across the scan / wait_for_first_success hand-over and
   cancellation; lifted to a whole pass run. *)
Theorem C20_failed_le_executed_round :
  forall (g : cfg) (cands : list cand) (sch : sched) (x : xst),
  r_raised _ (cround g cands sch x) = false ->
  x_failed (r_x _ (cround g cands sch x)) <= x_failed x + r_sched _ (cround g cands sch x).
Proof. exact cround_failed_le_scheduled. Qed.
Theorem C20_failed_le_executed :
  forall (St : Type) (test : disk -> tout) (rc : rcfg) (p : pass St) (m : mst),
  g_die (r_g rc) = false ->
  pr_failed (run_pass St test rc p m) <= pr_exec (run_pass St test rc p m).
Proof. exact run_pass_failed_le_executed. Qed.

(* time: with a monotone clock the per-pass intervals are non-negative and their sum does not
   exceed the elapsed time between the first start and the last stop. *)
Theorem C20_time_bounds :
  forall (l : list (Z * Z)) (lo : Z), mono lo l ->
  (0 <= total l)%Z /\ (total l <= last_stop lo l - lo)%Z /\ Forall (fun se => (0 <= snd se - fst se)%Z) l.
Proof.
  intros l lo H. destruct (total_bounds l lo H) as (A & B & _). split; [exact A|]. split; [exact B|].
  eapply each_nonneg; eauto.
Qed.

Example C20_example :
  let g := mkcfg 2 false false None false None 500 20 10 250 in
  let cs := [mkc OK 3 false true 1 false; mkc INVALID 0 false false 0 false; mkc OK 0 false true 1 false; mkc OK 1 false true 1 false] in
  let r := cround g cs [1;1;0;1;0;1] (xinit 0 0) in
  r_win _ r = Some 2 /\ x_failed (r_x _ r) = 2 /\ r_sched _ r = 4.
Proof. vm_compute. auto. Qed.
