(* C09  Failing, hanging or crashing tests and tools are never accepted, never wedge.
   Statements only. *)
From Coq Require Import List Arith Bool ZArith Lia.
Import ListNotations.
From CV Require Import Driver.Round Driver.RoundProofs Driver.RoundInv Driver.Outcome Driver.OutcomeProofs
  Driver.OutcomeInv Driver.RunPass Driver.LimitsProofs.

(* For every assignment of outcomes to candidate positions (exit code incl. negative = signal,
   timeout, INVALID/STOP/ERROR, raising transform), every schedule and every N: the candidate
   handed back for committing has result OK, exit status 0, did not time out. *)
Theorem C09_only_exit0_accepted :
  forall (g : cfg) (cands : list cand) (sch : sched) (x : xst) (w : nat),
  r_win _ (cround g cands sch x) = Some w ->
  c_res (cand_at cands w) = OK /\ c_exit (cand_at cands w) = 0%Z /\ c_timeout (cand_at cands w) = false /\
  c_changed (cand_at cands w) = true /\ too_large g (cand_at cands w) = false /\ c_norun (cand_at cands w) = false.
Proof. exact cround_win_success. Qed.

(* Faults do not block: if no candidate that may end the round (timeout, STOP, ERROR, unchanged
   OK, give-up) precedes the first ACCEPT-class candidate, the round returns exactly that
   candidate for every schedule and N; in particular candidates whose test exits non-zero, is
   killed by a signal, or whose transform raises or is INVALID never prevent a later success. *)
Theorem C09_faults_do_not_block :
  forall (g : cfg) (cands : list cand) (sch : sched) (x : xst),
  cands <> [] -> g_die g = false ->
  contract (length cands) (isA g cands) (mayQ g cands) ->
  FirstA (length cands) (isA g cands) (r_win _ (cround g cands sch x)) /\
  r_raised _ (cround g cands sch x) = false /\ Round.r_fuel _ (cround g cands sch x) = true.
Proof. intros g cands sch x NE D HC. destruct (cround_eq_seq g cands sch x NE D HC) as (_ & A & B & C). auto. Qed.

(* A stream of timeouts ends the round: the per-round timeout count never exceeds MAX_TIMEOUTS. *)
Theorem C09_timeouts_bounded :
  forall (g : cfg) (cands : list cand) (sch : sched) (x : xst),
  x_tcount x = 0 -> r_raised _ (cround g cands sch x) = false ->
  x_tcount (r_x _ (cround g cands sch x)) <= Nat.max (g_maxto g) 1.
Proof. exact cround_timeouts_bounded. Qed.

(* The model of a round is a total function that never runs out of fuel and never raises when
   die_on_pass_bug is off (no wedge in the bookkeeping; OS-level timeout delivery is pebble's). *)
Theorem C09_round_total :
  forall (g : cfg) (cands : list cand) (sch : sched) (x : xst),
  g_die g = false -> r_raised _ (cround g cands sch x) = false.
Proof. intros g cands sch x D. apply round_noraise. intros y i. apply chk_noraise. exact D. Qed.

(* Report directories stay within their caps through a whole reduction, from any initial count:
   directories are only created at indices 0..MAX (MAX+1 of them, as get_extra_dir and the
   existing test define). *)
Theorem C09_bug_dirs_cap :
  forall (St : Type) (test : disk -> tout) (rc : rcfg) (first main last : list (pass St)) (m : mst),
  x_bugdirs (m_x (fst (fst (reduce St test rc first main last m))))
    <= Nat.max (x_bugdirs (m_x m)) (S (g_maxcrash (r_g rc))).
Proof. exact reduce_bugdirs_cap. Qed.
Theorem C09_extra_dirs_cap :
  forall (St : Type) (test : disk -> tout) (rc : rcfg) (first main last : list (pass St)) (m : mst),
  x_extradirs (m_x (fst (fst (reduce St test rc first main last m))))
    <= Nat.max (x_extradirs (m_x m)) (S (g_maxextra (r_g rc))).
Proof. exact reduce_extradirs_cap. Qed.

(* Non-vacuity: exit 3, signal -9, a raising transform and INVALID before a success: accepted
   is the success at position 4, under an adversarial schedule, N = 2. *)
Example C09_example :
  let g := mkcfg 2 false false None false None 500 20 10 250 in
  let cs := [mkc OK 3 false true 1 false; mkc OK (-9) false true 1 false; mkc EXC 0 false false 0 false;
             mkc INVALID 0 false false 0 false; mkc OK 0 false true 1 false; mkc OK 0 false true 1 false] in
  r_win _ (cround g cs [0;1;1;0;3;1;0;0;1] (xinit 0 0)) = Some 4 /\
  forallb (fun i => forallb (fun j => negb (i <? j) || negb (mayQ g cs i) || negb (isA g cs j)) (seq 0 6)) (seq 0 6) = true.
Proof. vm_compute. auto. Qed.
