(* C01  The reduced test cases are always an interesting set.
   Statements only; proofs in Driver/OutcomeProofs.v, RunPassProofs.v, InvProofs.v. *)
From Coq Require Import List Arith Bool ZArith NArith Lia.
Import ListNotations.
From CV Require Import Driver.Round Driver.Outcome Driver.OutcomeProofs Driver.RunPass
  Driver.RunPassProofs Driver.InvProofs Driver.Script.

(* Whatever the schedule, N, the configuration and the per-candidate outcomes (exit codes,
   signals = negative codes, timeouts, INVALID/STOP/ERROR, raising transforms), the candidate a
   round hands back for committing is an OK result whose test exited 0 and which changed the file. *)
Theorem C01_round_winner_tested :
  forall (g : cfg) (cands : list cand) (sch : sched) (x : xst) (w : nat),
  r_win _ (cround g cands sch x) = Some w ->
  c_res (cand_at cands w) = OK /\ c_exit (cand_at cands w) = 0%Z /\ c_timeout (cand_at cands w) = false /\
  c_changed (cand_at cands w) = true /\ too_large g (cand_at cands w) = false /\ c_norun (cand_at cands w) = false.
Proof. exact cround_win_success. Qed.

(* One pass run, any number of files, cache on or off, any pass functions (growing, neutral,
   STOP/ERROR, unchanged...), any deterministic test, any schedule: if the files were the original or
   an interesting set before, they are after — on normal return AND when the run ends by an error —
   and every cache entry replays to such a set. *)
Theorem C01_run_pass_inv :
  forall (St : Type) (test : disk -> tout) (d0 : disk) (rc : rcfg) (p : pass St) (m : mst),
  new_sane St p ->
  Inv test d0 (m_disk m) -> CacheOK test d0 (m_cache m) ->
  Inv test d0 (m_disk (pr_m (run_pass St test rc p m))) /\
  CacheOK test d0 (m_cache (pr_m (run_pass St test rc p m))).
Proof. exact run_pass_inv. Qed.

(* The whole reduction (sanity check, first / main loop / last), on every exit. *)
Theorem C01_reduce_inv :
  forall (St : Type) (test : disk -> tout) (d0 : disk) (rc : rcfg) (first main last : list (pass St)) (m : mst),
  Forall (new_sane St) first -> Forall (new_sane St) main -> Forall (new_sane St) last ->
  m_disk m = d0 -> m_cache m = [] ->
  let '(m', e, _) := reduce St test rc first main last m in
  m_disk m' = d0 \/ interesting test (m_disk m') = true.
Proof. exact reduce_inv. Qed.

(* Non-vacuity: two files, three scripted passes (deleting, growing, rewriting in new()), mixed
   verdicts, cache on: the run commits several steps and ends on an interesting pair. *)
Definition ex_rules : list (list atom * tout) := [([Has 0 97%N; Has 1 98%N], Exit 0); ([LenGe 0 4], Exit 3)].
Definition ex_rc := mkrcfg (mkcfg 2 false false None false None 500 20 10 250) false 0 false 1 1 40.
Definition ex_passes :=
  [mksp 1 0 [Del 0; Del 1; Del 2] 0 None; mksp 2 0 [Dup 0; DelCh 99%N; Stop_] 1 (Some [97;97]%N); mksp 1 0 [Del 0; Del 1; Del 2] 0 None].
Example C01_example :
  let '(m, e, acc) := reduce nat (run_rules ex_rules) ex_rc [] (map sp_pass ex_passes) []
                       (mkm [[99;97;99]%N; [98;98;99]%N] [] (xinit 0 0) [1;0;1;1;0;1] None) in
  e = FNormal /\ 2 <= length acc /\ interesting (run_rules ex_rules) (m_disk m) = true.
Proof. vm_compute. repeat split; auto; lia. Qed.
Example C01_example_hyp : Forall (new_sane nat) (map sp_pass ex_passes).
Proof. simpl. repeat (constructor; [apply sp_pass_new_sane|]). constructor. Qed.
