(* C07  Candidates are genuine, local edits of the current file.  Statements only; proofs in
   Passes/EditProofs.v and Matcher/NMProofs.v.  text = list of code points after text-mode decoding. *)
From Coq Require Import List Arith Bool ZArith NArith Lia.
Import ListNotations.
From CV Require Import Matcher.NM Matcher.NMProofs Driver.Outcome Passes.Edit Passes.EditProofs Passes.BalancedComplete.

(* lines: the candidate is the text minus the whole lines [i, e) — a subsequence, strictly
   shorter, hence different (every text, every non-empty in-range slice). *)
Theorem C07_lines_removes_whole_lines :
  forall (t : text) (i e : nat), i < e -> e <= length (lines t) ->
  concat (lines t) = t /\
  Subseq (lines_transform t i e) t /\ length (lines_transform t i e) < length t /\ lines_transform t i e <> t.
Proof. intros t i e H1 H2. split; [apply lines_concat|apply lines_transform_spec; auto]. Qed.

(* line markers / includes / blank: whole selected lines are dropped, nothing else; the result
   is a subsequence and strictly shorter whenever it differs (any selection predicate). *)
Theorem C07_selected_lines_removed :
  forall (sel : text -> bool) (t : text) (k i e : nat),
  Subseq (concat (drop_selected sel (lines t) k i e)) t /\
  (concat (drop_selected sel (lines t) k i e) <> t -> length (concat (drop_selected sel (lines t) k i e)) < length t).
Proof. exact drop_lines_spec. Qed.
Theorem C07_blank_lines_removed :
  forall (m : text -> bool) (t : text),
  Subseq (concat (filter (fun l => negb (m l)) (lines t))) t /\
  (existsb m (lines t) = true -> length (concat (filter (fun l => negb (m l)) (lines t))) < length t).
Proof. exact filter_lines_spec. Qed.

(* comments: the text minus all (ordered, non-overlapping) match spans: a subsequence, strictly
   shorter when some match is non-empty. *)
Theorem C07_comments_deleted :
  forall (t : text) (spans : list span), spans_ok 0 (length t) spans = true ->
  Subseq (delete_spans t 0 spans) t /\
  (existsb (fun sp => fst sp <? snd sp) spans = true -> length (delete_spans t 0 spans) < length t).
Proof. exact delete_spans_text. Qed.

(* balanced: a produced candidate is the text with ONE replacement at a span that the matcher
   reported (the cursor, or a later find), and it differs from the text; C12 says such a span is a
   genuinely balanced group.  The replacement is local. *)
Theorem C07_balanced_candidate :
  forall (rxm : nat -> str -> nat -> option nat) (o c : N) (prefix : option nat) (m : bmode)
         (fuel : nat) (t : text) (st : option span) (t' : text) (st' : option span),
  balanced_transform rxm fuel o c prefix m t st = (OK, t', st') ->
  exists sp, st' = Some sp /\ t' = balanced_replace m t sp /\ t' <> t /\
    (st = Some sp \/ exists p0, find rxm o c prefix t p0 = Some sp).
Proof. exact balanced_transform_ok. Qed.
Theorem C07_balanced_local :
  forall (m : bmode) (t : text) (a b : nat), a < b -> b <= length t -> a + 1 <= b - 1 \/ True ->
  firstn a (balanced_replace m t (a, b)) = firstn a t /\
  (forall r, m = BTo r -> skipn (a + length r) (balanced_replace m t (a, b)) = skipn b t) /\
  (m = BAll -> Subseq (balanced_replace m t (a, b)) t /\ length (balanced_replace m t (a, b)) < length t).
Proof. exact balanced_replace_local. Qed.

(* balanced passes without a prefix, every candidate rejected (the driver's run: new = find from 0; transform,
   which skips groups whose replacement changes nothing; advance = find from start + 1): EVERY balanced group
   whose replacement changes the text is offered — for every text, every delimiter pair and every mode — and
   nothing but replacements of balanced groups is offered. *)
Theorem C07_balanced_every_group_offered :
  forall (rxm : nat -> str -> nat -> option nat),
  (forall id s i j, rxm id s i = Some j -> i <= j /\ j <= length s) ->
  forall (o c : N), o <> c -> forall (m : bmode) (t : text) (a j : nat),
  Balanced o c t a j -> balanced_replace m t (a, j) <> t ->
  In ((a, j), balanced_replace m t (a, j))
     (all_rejected rxm o c m t (S (length t)) (S (length t)) (find rxm o c None t 0%Z)).
Proof.
  intros rxm RB o c OC m t a j B CH.
  apply (all_rejected_complete rxm RB o c OC m t a j B CH (S (length t)) ltac:(lia) (S (length t)) 0); lia.
Qed.
Theorem C07_balanced_only_groups_offered :
  forall (rxm : nat -> str -> nat -> option nat),
  (forall id s i j, rxm id s i = Some j -> i <= j /\ j <= length s) ->
  forall (o c : N), o <> c -> forall (m : bmode) (t : text) (inner fuel : nat) (x : span * text),
  In x (all_rejected rxm o c m t inner fuel (find rxm o c None t 0%Z)) ->
  exists a j, x = ((a, j), balanced_replace m t (a, j)) /\ Balanced o c t a j /\ snd x <> t.
Proof. intros rxm RB o c OC m t inner fuel x. exact (all_rejected_sound rxm RB o c OC m t inner fuel 0 x). Qed.

(* ints / special / peep / ternary: one reported span is replaced; text before and after it is
   preserved character for character; a replacement of another length always differs. *)
Theorem C07_span_replacement_local :
  forall (t : text) (a b : nat) (r : text), a <= b -> b <= length t ->
  firstn a (span_replace t (a, b) r) = firstn a t /\
  skipn (a + length r) (span_replace t (a, b) r) = skipn b t /\
  length (span_replace t (a, b) r) + (b - a) = length t + length r /\
  (length r <> b - a -> span_replace t (a, b) r <> t).
Proof. exact span_replace_local. Qed.

Example C07_example :
  lines_transform [97;10;98;10;99]%N 1 2 = [97;10;99]%N /\
  balanced_replace BOnly [120;40;97;41;121]%N (1, 4) = [120;97;121]%N /\
  balanced_replace BInside [120;40;97;41;121]%N (1, 4) = [120;40;41;121]%N /\
  delete_spans [47;42;120;42;47;97;47;42;42;47]%N 0 [(0,5);(6,10)] = [97]%N.
Proof. vm_compute. repeat split; reflexivity. Qed.

(* non-vacuity: in "a(b)(c)" with parens-only both groups are offered, in order *)
Example C07_offered_example :
  map fst (all_rejected (fun _ _ _ => None) 40%N 41%N BOnly [97;40;98;41;40;99;41]%N 8 8
             (find (fun _ _ _ => None) 40%N 41%N None [97;40;98;41;40;99;41]%N 0%Z)) = [(1, 4); (4, 7)].
Proof. vm_compute. reflexivity. Qed.
