(* C11  Pass states are values: enumeration never disturbs scheduled candidates.  Statements only.
   PyMini (Py/PyMini.v): heap of mutable objects, nondeterministic control, any statement may raise,
   reads yield arbitrary values; py_table is regenerated from cvise/passes/*.py on every run. *)
From Coq Require Import List String Bool Arith Lia.
Import ListNotations.
From CV Require Import Py.PyMini Py.PyMiniProofs Py.PyFacts Gen.PyMethods.
Local Open Scope string_scope.

(* soundness of the write analysis, for any table of methods and any summary table that is stable
   under it: every execution of every method (any call depth, arguments, heap, outcome incl. an
   exception) grows the heap only, changes pre-existing objects only as the summary allows, and
   returns a value of the summarised class *)
Theorem C11_analysis_sound :
  forall (tbl:table) (S:sigma), stable tbl S = true ->
  forall n f vs h h' o, callsem tbl n f vs h h' o -> respects (slook S f) vs h h' o.
Proof. exact callsem_sound. Qed.

(* asking for the next candidate leaves EVERY existing object untouched: the cursor passed in, the
   pass object, anything reachable from them — for all 19 advance methods *)
Theorem C11_advance_leaves_everything_untouched :
  forall f i, In (f, i) advance_methods ->
  forall n vs h h' o, callsem py_table n f vs h h' o ->
  forall a k, a < List.length h -> hget h' a k = hget h a k.
Proof.
  intros f i I n vs h h' o C. eapply unchanged; eauto.
  pose proof advance_pure as P. rewrite forallb_forall in P. apply (P _ I).
Qed.

(* ... and what advance returns is a scalar / None or an object created during the call — never an
   alias of the cursor it was given or of any other existing object *)
Theorem C11_advance_returns_no_alias :
  forall f i, In (f, i) advance_methods ->
  forall n vs h h' v, callsem py_table n f vs h h' (ORet v) -> forall b, v = VRef b -> List.length h <= b.
Proof.
  intros f i I n vs h h' v C. eapply returns_fresh; eauto.
  pose proof advance_fresh as P. rewrite forallb_forall in P. apply (P _ I).
Qed.

(* the BinaryState helpers: copy / end / real_chunk / create / advance write nothing;
   advance_on_success writes only self.instances *)
Theorem C11_binary_state :
  forallb (fun f => String.eqb f "BinaryState.advance_on_success" || writes_within [] f) binary_state_methods = true /\
  writes_within [WField 0 "instances"] "BinaryState.advance_on_success" = true.
Proof. exact binary_state_pure. Qed.

(* advance_on_success (called on the winner's private copy) changes at most the fields
   `instances` / `real_num_instances` of the cursor it is given — nothing else, not the pass object *)
Theorem C11_advance_on_success_effects :
  forall f i, In (f, i) advance_on_success_methods ->
  forall n vs h h' o, callsem py_table n f vs h h' o ->
  forall a k, a < List.length h -> hget h' a k <> hget h a k ->
  allowed vs [WField i "instances"; WField i "real_num_instances"] a k.
Proof.
  intros f i I n vs h h' o C. eapply changed_allowed; eauto.
  pose proof aos_effects as P. rewrite forallb_forall in P. apply (P _ I).
Qed.

(* PARTIAL w.r.t. "the cursor is left untouched" for one pass: transform never writes to the pass
   object or the cursor, except ClangBinarySearchPass.transform, which stores the instance count
   reported by clang_delta in the slot `real_num_instances` of the cursor it was given (its return
   channel); the only other object a transform may modify is its process-event notifier (argument 3) *)
Theorem C11_transform_effects_partial :
  forall f i, In (f, i) transform_methods ->
  forall n vs h h' o, callsem py_table n f vs h h' o ->
  forall a k, a < List.length h -> hget h' a k <> hget h a k ->
  allowed vs (if String.eqb f "ClangBinarySearchPass.transform" then [WAll 3; WField i "real_num_instances"] else [WAll 3]) a k.
Proof.
  intros f i I n vs h h' o C. eapply changed_allowed; eauto.
  pose proof transform_effects as P. rewrite forallb_forall in P. specialize (P _ I). simpl in P.
  destruct (String.eqb f "ClangBinarySearchPass.transform"); exact P.
Qed.

(* new() may set two configuration slots of the pass object (LinesPass.bailout,
   ClangBinarySearchPass.clang_delta_std) and nothing else *)
Theorem C11_new_effects :
  forallb (fun p => writes_within [WField 0 "bailout"; WField 0 "clang_delta_std"] (fst p)) new_methods = true.
Proof. exact new_effects. Qed.

(* the summaries used above are a fixed point of the analysis over the generated table *)
Theorem C11_summaries_stable : stable py_table Sg = true.
Proof. exact Sg_stable. Qed.

(* non-vacuity: an in-place advance is expressible, does modify its argument, and is reported *)
Example C11_in_place_advance_is_caught :
  s_w (an_meth [] bad_advance) = [WField 2 "index"] /\
  exists h h', callsem [("Bad.advance", bad_advance)] 1 "Bad.advance" [VScalar; VScalar; VRef 0] h h' (ORet (VRef 0)) /\
               hget h' 0 "index" <> hget h 0 "index".
Proof. exact (conj bad_advance_flagged bad_advance_writes). Qed.
