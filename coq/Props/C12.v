(* C12  Delimiter matching returns exactly the leftmost genuinely balanced match.
   Statements only; proofs in Matcher/NMProofs.v.  Regular-expression parts are abstract
   ([rxm id s i] = end of CPython's anchored match at i, bounded by the string): the theorems hold
   for every such function, i.e. for every regular expression. *)
From Coq Require Import List Arith Bool ZArith NArith Lia.
Import ListNotations.
From CV Require Import Matcher.NM Matcher.NMProofs.

(* The anchored scan computes exactly "opens at i, depth returns to 0 for the first time at j". *)
Theorem C12_balanced_scan_spec :
  forall (o c : N), o <> c -> forall (s : str) (i : nat),
  match bal_at o c s i with
  | Some (a, j) => a = i /\ Balanced o c s i j
  | None => forall j, ~ Balanced o c s i j
  end.
Proof. exact bal_at_spec. Qed.

(* search(parts, s, pos): for all strings, all integer positions (negative and beyond the end
   included) and all part sequences: a reported span is within bounds and really is a chain of
   the parts (sound); no chain starts earlier at or after pos (leftmost); None only if pos is out
   of range or no chain starts at any position of the string from pos on (complete).  The
   function is total and the internal fuel is never the reason for None. *)
Theorem C12_search_sound_leftmost_complete :
  forall (rxm : nat -> str -> nat -> option nat),
  (forall id s i j, rxm id s i = Some j -> i <= j /\ j <= length s) ->
  forall (parts : list (pat * option nat)) (s : str) (pos : Z), wf_parts parts -> parts <> [] ->
  match search rxm parts s pos true with
  | Some r => (0 <= pos)%Z /\ (pos < Z.of_nat (length s))%Z /\
              Z.to_nat pos <= fst (r_all r) /\ snd (r_all r) <= length s /\
              Chain rxm parts s (fst (r_all r)) (snd (r_all r)) /\
              forall a', Z.to_nat pos <= a' -> a' < fst (r_all r) -> ~ HasChain rxm parts s a'
  | None => (pos < 0)%Z \/ (Z.of_nat (length s) <= pos)%Z \/
            forall a', Z.to_nat pos <= a' -> a' < length s -> ~ HasChain rxm parts s a'
  end.
Proof. exact search_true_spec. Qed.

(* find(expr, s, pos) without prefix: the leftmost balanced group at or after pos. *)
Theorem C12_find_leftmost_balanced :
  forall (rxm : nat -> str -> nat -> option nat),
  (forall id s i j, rxm id s i = Some j -> i <= j /\ j <= length s) ->
  forall (o c : N) (s : str) (pos : Z), o <> c ->
  match find rxm o c None s pos with
  | Some (a, j) => (0 <= pos)%Z /\ Z.to_nat pos <= a /\ Balanced o c s a j /\
                   forall a' j', Z.to_nat pos <= a' -> a' < a -> ~ Balanced o c s a' j'
  | None => (pos < 0)%Z \/ (Z.of_nat (length s) <= pos)%Z \/
            forall a' j', Z.to_nat pos <= a' -> a' < length s -> ~ Balanced o c s a' j'
  end.
Proof. exact find_spec. Qed.

(* search=False (peephole passes): the reported span is a chain; every position skipped before it
   had the first part matching but no chain; None means the first part stopped matching (or the
   string ended) before any chain was found. *)
Theorem C12_search_false_mode :
  forall (rxm : nat -> str -> nat -> option nat),
  (forall id s i j, rxm id s i = Some j -> i <= j /\ j <= length s) ->
  forall (parts : list (pat * option nat)), wf_parts parts -> parts <> [] -> forall s fuel start,
  length s - start < fuel ->
  match search_loop rxm fuel parts s start false with
  | Some r => start <= fst (r_all r) /\ Chain rxm parts s (fst (r_all r)) (snd (r_all r)) /\
              forall a', start <= a' -> a' < fst (r_all r) ->
                (exists j, PartAt rxm (fst (hd (PRegex 0, None) parts)) s a' j) /\ ~ HasChain rxm parts s a'
  | None => exists stop, start <= stop /\
              (forall a', start <= a' -> a' < stop -> a' < length s ->
                 (exists j, PartAt rxm (fst (hd (PRegex 0, None) parts)) s a' j) /\ ~ HasChain rxm parts s a') /\
              (length s <= stop \/ NoPart rxm (fst (hd (PRegex 0, None) parts)) s stop)
  end.
Proof. exact search_loop_false. Qed.

(* Non-vacuity: "(a(b)c)(" — the leftmost balanced parens from 0 is [0,7); from 1 it is [2,5);
   the unbalanced "(" at 7 is never reported. *)
Example C12_example :
  let s := [40;97;40;98;41;99;41;40]%N in
  let none := fun (_:nat) (_:str) (_:nat) => @None nat in
  find none 40%N 41%N None s 0%Z = Some (0, 7) /\ find none 40%N 41%N None s 1%Z = Some (2, 5) /\
  find none 40%N 41%N None s 7%Z = None /\ find none 40%N 41%N None s (-1)%Z = None /\ find none 40%N 41%N None s 8%Z = None.
Proof. vm_compute. repeat split; reflexivity. Qed.
