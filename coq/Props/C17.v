(* C17  Misuse is refused cleanly with a readable C-Vise error and no side effects.
   Statements only; the model is a decision table (Driver/Startup.v) tied to the real
   constructor / CVise.reduce by the harness on every misuse class. *)
From Coq Require Import List String Bool ZArith.
Import ListNotations.
From CV Require Import Driver.Startup Driver.StartupProofs.

(* Start-up succeeds iff nothing is misused. *)
Theorem C17_startup_ok_iff : forall e : senv, startup e = None <-> all_ok e = true.
Proof. exact startup_ok_iff. Qed.

(* Otherwise the error is one of C-Vise's own classes, and it is the class of the first
   offending item in validation order (test cases in the order given: missing, unreadable,
   unwritable, absolute; then the interestingness test; then the sanity check). *)
Theorem C17_misuse_classified : forall (e : senv) (x : serr), startup e = Some x ->
  match x with
  | InvalidTestCase n a =>
      exists pre t post, e_tcs e = (pre ++ t :: post)%list /\ forallb tc_ok pre = true /\ t_name t = n /\
        match a with F_OK => t_exists t = false
                   | R_OK => t_exists t = true /\ t_readable t = false
                   | W_OK => t_exists t = true /\ t_readable t = true /\ t_writable t = false end
  | AbsolutePathTestCase n =>
      exists pre t post, e_tcs e = (pre ++ t :: post)%list /\ forallb tc_ok pre = true /\ t_name t = n /\ t_absolute t = true
  | InvalidInterestingnessTest => forallb tc_ok (e_tcs e) = true /\ (e_script_exists e && e_script_exec e) = false
  | InsaneTestCase => forallb tc_ok (e_tcs e) = true /\ (e_script_exists e && e_script_exec e) = true /\ e_sanity_exit0 e = false
  end.
Proof. exact misuse_classified. Qed.

(* Start-up-detectable misuse leaves the working directory exactly as it was: validation
   precedes backup_test_cases and every pass. *)
Theorem C17_startup_no_effects : forall e : senv, startup_writes e = [].
Proof. exact startup_no_effects. Qed.

Example C17_example :
  startup (mkse [mktc "a.c" true true true false; mktc "b.c" true false true false; mktc "/abs/c.c" true true true true] true true true)
  = Some (InvalidTestCase "b.c" R_OK).
Proof. reflexivity. Qed.
