(* C05  Each interestingness test runs isolated, on exactly the candidate set.  Statements only. *)
From Coq Require Import List String ZArith Bool NArith Permutation.
Import ListNotations.
Open Scope string_scope.
From CV Require Import Fs.Fs Fs.FsProofs Driver.Round Driver.RoundInv Driver.Outcome Driver.OutcomeInv.

(* A candidate folder holds exactly the test cases at their relative paths: the file being
   reduced carries the candidate, every other test case is byte-identical (and mode-identical)
   to its currently accepted version, nothing else is present. *)
Theorem C05_folder_contents :
  forall (tcs : list string) (w : wdir) (cur : string) (cand : bytes),
  map fst (test_folder tcs w cur cand) = tcs /\
  (forall x c md, In x tcs -> lookup x w = Some (c, md) ->
     In (x, (if String.eqb x cur then cand else c, md)) (test_folder tcs w cur cand)).
Proof. exact test_folder_spec. Qed.

(* Every scheduled candidate of a round gets its own folder, accounted for exactly once (held at
   return or released): no two live candidates share one, none is reused (ids are the mkdtemp
   calls in order). *)
Theorem C05_folders_distinct :
  forall (g : cfg) (cands : list cand) (sch : sched) (x : xst),
  Permutation (seq 0 (r_sched _ (cround g cands sch x)))
              (r_futs _ (cround g cands sch x) ++ r_released _ (cround g cands sch x)).
Proof. exact cround_folders. Qed.

(* The writes of a test stay in its folder: nothing C-Vise copies back comes from a folder other
   than the winner's, and only the file being reduced is copied (Commit on one test case). *)
Theorem C05_only_commits_reach_the_workdir :
  forall (tcs : list string) (ops : list wop) (w : wdir) (p : string),
  forallb (wop_ok tcs) ops = true -> ~ In p tcs -> reserved p = false ->
  lookup p (fold_left apply_wop ops w) = lookup p w.
Proof. intros. eapply ops_frame; eauto. Qed.
