(* C02  Parallel speculative reduction equals the sequential greedy reduction.
   Statements only; proofs in Driver/RoundProofs.v, OutcomeProofs.v, RunPassProofs.v. *)
From Coq Require Import List Arith Bool ZArith NArith Lia.
Import ListNotations.
From CV Require Import Driver.Round Driver.RoundProofs Driver.Outcome Driver.OutcomeProofs
  Driver.RunPass Driver.RunPassProofs Driver.SpecProofs.

(* Generic in the result-checking function: for EVERY parallelism N, EVERY schedule (stream of
   completion answers) and every side state, if ACCEPT is a static class, nothing RAISEs and
   no ACCEPT-class candidate follows one that may quit the round (the contract), then the
   parallel round returns exactly what the one-at-a-time loop returns: the first ACCEPT-class
   candidate of the enumeration, with no earlier candidate left unclassified (FirstA). *)
Theorem C02_round_eq_seq :
  forall (X : Type) (chk : X -> nat -> outcome * X) (tmo : nat -> bool)
         (on_tmo : X -> nat -> X * bool) (N m : nat) (isA mayQ : nat -> bool),
  (forall x i, tmo i = false -> fst (chk x i) = ACCEPT <-> isA i = true) ->
  (forall i, isA i = true -> tmo i = false) ->
  (forall x i, fst (chk x i) = QUIT -> mayQ i = true) ->
  (forall i, tmo i = true -> mayQ i = true) ->
  (forall x i, fst (chk x i) <> RAISE) ->
  forall (sch : sched) (x : X), 0 < m -> contract m isA mayQ ->
  r_win X (round X chk tmo on_tmo N m sch x) = fst (seq_round X chk tmo m x) /\
  FirstA m isA (r_win X (round X chk tmo on_tmo N m sch x)) /\
  r_raised X (round X chk tmo on_tmo N m sch x) = false /\
  Round.r_fuel X (round X chk tmo on_tmo N m sch x) = true.
Proof. exact round_eq_seq. Qed.

(* Instantiated with the model of check_pass_result (all its configuration switches). *)
Theorem C02_round_check_pass_result :
  forall (g : cfg) (cands : list cand) (sch : sched) (x : xst),
  cands <> [] -> g_die g = false ->
  contract (length cands) (isA g cands) (mayQ g cands) ->
  r_win _ (cround g cands sch x) = fst (cseq g cands x) /\
  FirstA (length cands) (isA g cands) (r_win _ (cround g cands sch x)) /\
  r_raised _ (cround g cands sch x) = false /\ Round.r_fuel _ (cround g cands sch x) = true.
Proof. exact cround_eq_seq. Qed.

(* The whole per-file loop of run_pass: accepted sequence, number of accepted steps, final
   joint contents and exit do not depend on N, on the schedule nor on the side state. *)
Theorem C02_file_loop_schedule_independent :
  forall (St : Type) (test : disk -> tout) (rc : rcfg) (p : pass St) (f : nat),
  g_die (r_g rc) = false ->
  (forall c s, snd (chain St p (r_fuel rc) c s) = true) ->
  (forall d s, contract (length (cands_of St test rc p d f s)) (isA (r_g rc) (cands_of St test rc p d f s))
                        (mayQ (r_g rc) (cands_of St test rc p d f s))) ->
  forall fuel d s start succ x worked exec sch acc,
  let r := rounds St test fuel rc p f d s start succ x worked exec sch acc in
  (f_disk r, f_worked r, f_acc r, f_exit r) = rounds_spec St test fuel rc p f d s start succ worked acc.
Proof. exact rounds_sched_indep. Qed.

(* The whole reduction (first / main loop / last, any number of files, cache off): accepted
   sequence, final files and exit are the same for any two parallelism levels, any two
   schedules and any two report-directory states — they are those of a specification that has
   no schedule at all (Driver/SpecProofs.v reduce_spec). *)
Theorem C02_reduce_schedule_independent :
  forall (St : Type) (test : disk -> tout) (rc : rcfg) (first main last : list (pass St)) (m1 m2 : mst) (n1 n2 : nat),
  let allp := first ++ main ++ last in
  (forall p q, In p allp -> In q allp -> p_key St p = p_key St q -> p = q) ->
  g_die (r_g rc) = false -> Forall (well_behaved St test rc) allp ->
  m_disk m1 = m_disk m2 -> m_start m1 = m_start m2 -> m_cache m1 = [] -> m_cache m2 = [] ->
  let r1 := reduce St test (with_run true n1 rc) first main last m1 in
  let r2 := reduce St test (with_run true n2 rc) first main last m2 in
  m_disk (fst (fst r1)) = m_disk (fst (fst r2)) /\ snd (fst r1) = snd (fst r2) /\ snd r1 = snd r2.
Proof. exact reduce_sched_indep. Qed.

(* Non-vacuity: a candidate list with IGNORE, ACCEPT and a STOP suffix satisfies the contract. *)
Definition ex_g := mkcfg 3 false false None false None 500 20 10 250.
Definition ex_cands :=
  [mkc INVALID 0 false false 0 false; mkc OK 1 false true 1 false; mkc OK 0 false true 1 false; mkc OK 0 false true 2 false;
   mkc STOP 0 false false 0 false].
Example C02_contract_example :
  forallb (fun i => forallb (fun j => negb (i <? j) || negb (mayQ ex_g ex_cands i) || negb (isA ex_g ex_cands j))
                            (seq 0 5)) (seq 0 5) = true /\
  r_win _ (cround ex_g ex_cands [1;0;1;1;0;2;1] (xinit 0 0)) = Some 2.
Proof. vm_compute. auto. Qed.
(* The contract is needed: with an ERROR before a success the parallel round can return the
   later success (wait_for_first_success ignores QUIT) while the sequential loop stops. *)
Example C02_noncontract_differs :
  let cs := [mkc INVALID 0 false false 0 false; mkc ERROR 0 false false 0 false; mkc OK 0 false true 1 false] in
  r_win _ (cround ex_g cs [0;0;0;0;0;0;0;0;0] (xinit 0 0)) = Some 2 /\ fst (cseq ex_g cs (xinit 0 0)) = None.
Proof. vm_compute. auto. Qed.
