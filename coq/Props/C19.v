(* C19  Every clang_delta transformation follows the counter protocol.
   The skeletons are regenerated from clang_delta/*.cpp on every run (tools/gen/clangdelta.py);
   clang_delta itself cannot be built offline, so the extractor is the only tie to the code. *)
From Coq Require Import List String ZArith Bool.
Import ListNotations.
Open Scope string_scope.
From CV Require Import Config.PassGroup Config.Shipped ClangDelta.Skeleton ClangDelta.SkeletonProofs ClangDelta.ArgParse.
From CV Require Gen.ClangDelta.

(* Soundness of the checker for EVERY behaviour of the opaque conditions (oracle nat -> bool):
   with the query flag no may-rewrite statement is executed; without it, without the warn flag
   and with the counter beyond the instances, the run ends with the wanted error and no rewrite. *)
Theorem C19_protocol_checker_sound :
  forall (want : errk -> bool) (n : nat) (p : stmt),
  bounded n p = true -> protocol_with want n p = true ->
  forall (e : env) (orc : nat -> bool),
  let r := exec e orc p st0 in
  (e_query e = true -> s_rewrote r = false) /\
  (e_query e = false -> e_warn e = false -> e_oob e = true -> want (s_err r) = true /\ s_rewrote r = false).
Proof. exact protocol_with_sound. Qed.

(* all registered transformations: asking only for the number of instances never rewrites; an
   out-of-range counter ends in an error exit without any rewrite *)
Theorem C19_all_registered_ok :
  forallb (fun t => bounded (snd (fst t)) (snd t) && protocol_ok (snd (fst t)) (snd t)) Gen.ClangDelta.skeletons = true /\
  map (fun t => fst (fst t)) Gen.ClangDelta.skeletons = map (fun r => fst (fst r)) Gen.ClangDelta.registrations.
Proof. vm_compute. split; reflexivity. Qed.

(* ... and that error is precisely TransMaxInstanceError, except for the five renaming
   transformations that first report that nothing can be renamed at all *)
Theorem C19_out_of_range_error_is_max_instance :
  forallb (fun t => protocol_strict (snd (fst t)) (snd t) ||
                    mem (fst (fst t)) ["rename-class"; "rename-cxx-method"; "rename-fun"; "rename-param"; "rename-var"])
          Gen.ClangDelta.skeletons = true.
Proof. vm_compute. reflexivity. Qed.

(* --warn-on-counter-out-of-bounds turns the error into a warning (and a clamped range) only for the transformations
   that the tool's help text names; for every other transformation an out-of-range counter ends in a fatal error
   without any rewrite whether or not the switch is given *)
Theorem C19_warn_switch_only_where_documented :
  forallb (fun t => oob_strict_with is_fatal (snd (fst t)) (snd t) || mem (fst (fst t)) Gen.ClangDelta.warn_supported)
          Gen.ClangDelta.skeletons = true /\
  forall name n p, In (name, n, p) Gen.ClangDelta.skeletons -> mem name Gen.ClangDelta.warn_supported = false ->
  forall (e : env) (orc : nat -> bool), e_query e = false -> e_oob e = true ->
  is_fatal (s_err (exec e orc p st0)) = true /\ s_rewrote (exec e orc p st0) = false.
Proof.
  assert (A : forallb (fun t => oob_strict_with is_fatal (snd (fst t)) (snd t) || mem (fst (fst t)) Gen.ClangDelta.warn_supported)
                      Gen.ClangDelta.skeletons = true) by (vm_compute; reflexivity).
  assert (Bd : forallb (fun t => bounded (snd (fst t)) (snd t)) Gen.ClangDelta.skeletons = true) by (vm_compute; reflexivity).
  split; [exact A|]. intros name n p I NM e orc Q OOB.
  rewrite forallb_forall in A, Bd. specialize (A _ I). specialize (Bd _ I). cbn [fst snd] in A, Bd.
  rewrite NM, orb_false_r in A. exact (oob_strict_sound is_fatal n p Bd A e orc Q OOB).
Qed.

(* the shared driver (TransformationManager::doTransformation): with --query-instances the output is
   neither opened nor written, for every behaviour of its other conditions *)
Theorem C19_driver_query_never_outputs :
  bounded (fst Gen.ClangDelta.driver_skeleton) (snd Gen.ClangDelta.driver_skeleton) = true /\
  forall (e : env) (orc : nat -> bool), e_query e = true ->
    s_rewrote (exec e orc (snd Gen.ClangDelta.driver_skeleton) st0) = false.
Proof.
  assert (B : bounded (fst Gen.ClangDelta.driver_skeleton) (snd Gen.ClangDelta.driver_skeleton) = true) by (vm_compute; reflexivity).
  split; [exact B|]. apply (query_safe_sound _ _ B). vm_compute. reflexivity.
Qed.

(* the helper the skeletons treat as atomic: !checkCounterValidity() holds, with TransMaxInstanceError set,
   exactly when the counter OR the to-counter exceeds the instances and the warn flag is off (8 cases, table
   computed from Transformation.cpp) *)
Theorem C19_check_counter_validity_table :
  forallb (fun r => let '(c, t, w, retfalse, err) := r in
                    Bool.eqb retfalse ((c || t) && negb w) && Bool.eqb err ((c || t) && negb w))
          Gen.ClangDelta.counter_validity_table = true /\
  List.length Gen.ClangDelta.counter_validity_table = 8.
Proof. vm_compute. split; reflexivity. Qed.

(* the counter the transformation sees IS the number on the command line: --counter= / --to-counter= (blanks, sign,
   digits, anything) are read as exactly the integer they denote when it fits an int and are refused otherwise, for every
   argument - a counter beyond the int range can never come out as a small valid one *)
Theorem C19_counter_argument_exact :
  forall (ws : list N) (g : sign) (ds rest : list N),
  all_ws ws = true -> all_digits ds = true -> ds <> [] -> no_digit_first rest = true ->
  parse_counter (ws ++ sign_bytes g ++ ds ++ rest) =
  let v := signed g (dec ds 0) in
  if (int_min <=? v)%Z && (v <=? int_max)%Z then Some v else None.
Proof. exact parse_counter_exact. Qed.

(* between the command line and the transformation nothing rewrites the counters (the manager only stores them and hands
   them over), and no transformation's HandleTopLevelDecl stops the parse early - HandleTranslationUnit, where the protocol
   clauses live, is always reached *)
Theorem C19_counter_and_unit_reach_the_transformation :
  Gen.ClangDelta.manager_counter_writes = [] /\ Gen.ClangDelta.unit_handler_stops = [].
Proof. vm_compute. split; reflexivity. Qed.

(* ... and the pair (counter, to-counter) passes the manager's own sanity check for every range a binary-search driver can ask
   for (a single instance k..k included) and for a plain counter; a counter below 1 is refused *)
Theorem C19_ranges_pass_the_managers_check :
  (forall c t : Z, (1 <= c)%Z -> (c <= t)%Z -> verify_ok c t = true) /\
  (forall c : Z, (1 <= c)%Z -> verify_ok c (-1) = true) /\
  (forall c t : Z, (c <= 0)%Z -> verify_ok c t = false).
Proof. exact (conj verify_accepts_ranges (conj verify_accepts_plain_counter verify_refuses_nonpositive)). Qed.

(* each transformation name is registered once *)
Theorem C19_registrations_nodup :
  nodup_str (map (fun r => fst (fst r)) Gen.ClangDelta.registrations) = true.
Proof. vm_compute. reflexivity. Qed.

(* Non-vacuity: the checker rejects a skeleton that rewrites before the query return, and one that
   forgets the counter check *)
Example C19_checker_rejects :
  protocol_ok 0 (SSeq (SEffect true) (SSeq (SIf CQuery SReturn SSkip) (SIf CCounterGtValid (SSeq (SSetErr 0) SReturn) SSkip))) = false /\
  protocol_ok 0 (SSeq (SIf CQuery SReturn SSkip) (SEffect true)) = false /\
  protocol_ok 0 (SSeq (SIf CQuery SReturn SSkip) (SSeq (SIf CCounterGtValid (SSeq (SSetErr 0) SReturn) SSkip) (SEffect true))) = true.
Proof. vm_compute. repeat split; reflexivity. Qed.

(* non-vacuity: 2^32 + 1 is refused, 7 followed by garbage is 7 *)
Example C19_counter_argument_example :
  parse_counter [52;50;57;52;57;54;55;50;57;55]%N = None /\ parse_counter [32;55;120]%N = Some 7%Z.
Proof. vm_compute. split; reflexivity. Qed.
