(* C13  Pass-group selection follows the documented include/exclude/flag rules.
   Statements only; proofs in Config/PassGroupProofs.v; tables regenerated from /repo. *)
From Coq Require Import List String ZArith Bool.
Import ListNotations.
From CV Require Import Config.PassGroup Config.PassGroupProofs.
From CV Require Gen.PassGroups.

(* For EVERY dictionary, option set, remove set and flags: a well-formed group (all three
   categories present, every entry names a known pass and only known options) parses to exactly
   the documented filter — file order, per category, argument and max-transforms carried — and
   every other group is rejected with a C-Vise error. *)
Theorem C13_parse_eq_spec :
  forall (pass_table : list (string * string)) (valid_options : list string) (g : group) (o : popts),
  (wellformed pass_table valid_options g = true ->
     parse pass_table valid_options g o = Ok (spec_filter pass_table g o)) /\
  (wellformed pass_table valid_options g = false -> exists x, parse pass_table valid_options g o = Err x).
Proof. exact parse_eq_spec. Qed.

(* The shipped groups (regenerated from the JSON files on every run) are well-formed, hence the
   theorem above applies to them under every combination of options — no enumeration needed. *)
Theorem C13_shipped_wellformed :
  forallb (fun ng => wellformed Gen.PassGroups.pass_table Gen.PassGroups.valid_options (snd ng))
          Gen.PassGroups.shipped_groups = true.
Proof. vm_compute. reflexivity. Qed.

(* Non-vacuity: an entry excluded by an inactive option is still validated (a bogus pass in a
   row filtered out by include is rejected). *)
Example C13_filtered_row_validated :
  let g := [("first", [mke (Some "bogus") None (Some ["slow"]) None false false None]); ("main", []); ("last", [])]%string in
  parse Gen.PassGroups.pass_table Gen.PassGroups.valid_options g (mkpo [] [] false false) = Err (UnknownPass "bogus").
Proof. vm_compute. reflexivity. Qed.
