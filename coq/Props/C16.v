(* C16  Run limits given on the command line are honoured.  Statements only. *)
From Coq Require Import List Arith Bool ZArith NArith Lia.
Import ListNotations.
From CV Require Import Driver.Round Driver.RoundProofs Driver.RoundInv Driver.Outcome Driver.OutcomeProofs
  Driver.OutcomeInv Driver.RunPass Driver.LimitsProofs.

(* --max-improvement: a committed step never shrinks the file by more than the limit
   (any schedule, N, faults); 0 is handled (only size-neutral or growing steps pass). *)
Theorem C16_max_improvement_respected :
  forall (g : cfg) (cands : list cand) (sch : sched) (x : xst) (w : nat) (mx : Z),
  g_maximp g = Some mx -> r_win _ (cround g cands sch x) = Some w ->
  (c_improve (cand_at cands w) <= mx)%Z.
Proof.
  intros g cands sch x w mx E W. destruct (cround_win_success g cands sch x w W) as (_ & _ & _ & _ & T & _).
  unfold too_large in T. rewrite E in T. apply Z.ltb_ge in T. exact T.
Qed.

(* --skip-after-n-transforms and the pass's own max-transforms (limits >= 1): accepted steps per
   test case per pass run never exceed the limit; "worked" counts exactly the accepted steps. *)
Theorem C16_transform_limits :
  forall (St : Type) (test : disk -> tout) (rc : rcfg) (p : pass St) (f : nat)
         fuel d s start x worked exec sch acc,
  let r := rounds St test fuel rc p f d s start 0 x worked exec sch acc in
  f_worked r - worked = length (f_acc r) - length acc /\
  (r_skipn rc <> 0 -> f_worked r - worked <= r_skipn rc) /\
  (p_maxt St p <> 0 -> f_worked r - worked <= p_maxt St p).
Proof.
  intros St test rc p f fuel d s start x worked exec sch acc r. subst r.
  destruct (rounds_limits St test rc p f fuel d s start 0 x worked exec sch acc) as (A & _ & _ & B & C).
  split; [exact A|]. split; intros H; [specialize (B H)|specialize (C H)]; lia.
Qed.

(* --start-with-pass: while the gate is closed a pass run schedules nothing and changes nothing;
   the named pass opens the gate. *)
Theorem C16_start_with_gate :
  forall (St : Type) (test : disk -> tout) (rc : rcfg) (p : pass St) (m : mst) (k : N),
  m_start m = Some k ->
  (N.eqb k (p_key St p) = false ->
     pr_m (run_pass St test rc p m) = m /\ pr_exec (run_pass St test rc p m) = 0 /\ pr_acc (run_pass St test rc p m) = []) /\
  (N.eqb k (p_key St p) = true -> pr_exit (run_pass St test rc p m) <> FZero ->
     m_start (pr_m (run_pass St test rc p m)) = None).
Proof. exact start_with_gate. Qed.

(* give-up: if from index GIVEUP on nothing succeeds (and nothing hangs), a round schedules at
   most GIVEUP + N + 1 candidates, for every schedule — unless --no-give-up. *)
Theorem C16_giveup_bound :
  forall (g : cfg) (cands : list cand) (sch : sched) (x : xst),
  g_nogiveup g = false -> 1 <= g_N g ->
  (forall i, g_giveup g <= i -> success (cand_at cands i) = false /\ c_timeout (cand_at cands i) = false) ->
  r_sched _ (cround g cands sch x) <= g_giveup g + g_N g + 1.
Proof. exact cround_giveup. Qed.

(* bug-report directories: at most MAX_CRASH_DIRS + 1 (indices 0..MAX, as get_extra_dir and
   the repository's own test define), through a whole reduction. *)
Theorem C16_bugdirs_cap :
  forall (St : Type) (test : disk -> tout) (rc : rcfg) (first main last : list (pass St)) (m : mst),
  x_bugdirs (m_x m) = 0 ->
  x_bugdirs (m_x (fst (fst (reduce St test rc first main last m)))) <= S (g_maxcrash (r_g rc)).
Proof.
  intros St test rc first main last m Z. pose proof (reduce_bugdirs_cap St test rc first main last m) as H.
  rewrite Z in H. simpl in H. exact H.
Qed.

(* Limit value 0: in the code `0` is falsy, i.e. "no limit" (finding F10). The model says so
   explicitly: with skip_after_n_transforms = 0 and max_transforms = 0 every step is accepted. *)
From CV Require Import Driver.Script.
Example C16_limit_zero_is_unlimited :
  let rc := mkrcfg (mkcfg 1 false false None false None 500 20 10 250) true 0 false 1 1 40 in
  let r := run_pass nat (run_rules [([], Exit 0)]) rc (sp_pass (mksp 1 0 [Del 0] 0 None))
             (mkm [[97;98;99;100]%N] [] (xinit 0 0) [] None) in
  pr_worked r = 4.
Proof. vm_compute. reflexivity. Qed.
Example C16_limit_one :
  let rc := mkrcfg (mkcfg 1 false false None false None 500 20 10 250) true 1 false 1 1 40 in
  let r := run_pass nat (run_rules [([], Exit 0)]) rc (sp_pass (mksp 1 0 [Del 0] 0 None))
             (mkm [[97;98;99;100]%N] [] (xinit 0 0) [] None) in
  pr_worked r = 1.
Proof. vm_compute. reflexivity. Qed.
