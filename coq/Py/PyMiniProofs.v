(* Soundness of the write analysis of PyMini.v. *)
From Coq Require Import List String Bool Arith Lia.
Import ListNotations.
From CV Require Import Py.PyMini.
Local Open Scope string_scope.

(* ---------- concretisation ---------- *)
Definition gam (n0:nat) (vs:list val) (a:aval) (v:val) : Prop :=
  match a with
  | ANew => forall b, v = VRef b -> n0 <= b
  | AParam i => v = nth i vs VScalar
  | AMay i => v = nth i vs VScalar \/ forall b, v = VRef b -> n0 <= b
  | AOld => True
  end.
Definition egam n0 vs (A:aenv) (r:env) : Prop := forall x, gam n0 vs (alook A x) (r x).

Definition allowed (vs:list val) (w:list witem) (a:nat) (k:key) : Prop :=
  In WAny w \/ exists i, nth i vs VScalar = VRef a /\ (In (WField i k) w \/ In (WAll i) w).
Definition frame (n0:nat) (vs:list val) (w:list witem) (h h':heap) : Prop :=
  List.length h <= List.length h' /\
  forall a k, a < n0 -> hget h' a k <> hget h a k -> allowed vs w a k.

Definition respects (sm:summary) (vs:list val) (h h':heap) (o:out) : Prop :=
  frame (List.length h) vs (s_w sm) h h' /\
  match o with
  | ORet v => gam (List.length h) vs (s_r sm) v
  | ONorm => gam (List.length h) vs (s_r sm) VScalar          (* falling off the end returns None *)
  | _ => True
  end.

(* ---------- small facts ---------- *)
Lemma aval_eqb_eq a b : aval_eqb a b = true <-> a = b.
Proof.
  destruct a, b; simpl; split; intros H; try discriminate; try reflexivity; try congruence;
    try (apply Nat.eqb_eq in H; subst; reflexivity); try (inversion H; apply Nat.eqb_refl).
Qed.
Lemma gam_new_may n0 vs i v : gam n0 vs ANew v -> gam n0 vs (AMay i) v.
Proof. simpl. auto. Qed.
Lemma gam_param_may n0 vs i v : gam n0 vs (AParam i) v -> gam n0 vs (AMay i) v.
Proof. simpl. auto. Qed.
Lemma gam_join_l n0 vs a b v : gam n0 vs a v -> gam n0 vs (ajoin a b) v.
Proof.
  unfold ajoin. destruct (aval_eqb a b); auto.
  destruct a, b; simpl; auto; intros H;
    try (match goal with |- context [Nat.eqb ?x ?y] => destruct (Nat.eqb x y) eqn:E; [apply Nat.eqb_eq in E; subst|] end; simpl; auto).
Qed.
Lemma gam_join_r n0 vs a b v : gam n0 vs b v -> gam n0 vs (ajoin a b) v.
Proof.
  unfold ajoin. destruct (aval_eqb a b) eqn:EQ; [apply aval_eqb_eq in EQ; subst; auto|].
  destruct a, b; simpl; auto; intros H;
    try (match goal with |- context [Nat.eqb ?x ?y] => destruct (Nat.eqb x y) eqn:E; [apply Nat.eqb_eq in E; subst|] end; simpl; auto).
Qed.
Lemma gam_leb n0 vs a b v : aleb a b = true -> gam n0 vs a v -> gam n0 vs b v.
Proof.
  unfold aleb. intros H G. apply orb_true_iff in H. destruct H as [H|H].
  - apply orb_true_iff in H. destruct H as [H|H]; apply aval_eqb_eq in H; subst; simpl; auto.
  - destruct a, b; try discriminate; simpl in *; auto. apply Nat.eqb_eq in H. subst. auto.
Qed.
Lemma gam_mono n0 n1 vs a v : n0 <= n1 -> gam n1 vs a v -> gam n0 vs a v.
Proof.
  intros L G. destruct a; simpl in *; auto.
  - intros b E. specialize (G b E). lia.
  - destruct G as [G|G]; auto. right. intros b E. specialize (G b E). lia.
Qed.

Lemma alook_notin A x : ~ In x (map fst A) -> alook A x = AOld.
Proof.
  induction A as [|[y a] t IH]; simpl; auto. intros H.
  destruct (String.eqb x y) eqn:E; [apply String.eqb_eq in E; subst; exfalso; apply H; left; auto|].
  apply IH. intro. apply H. right. auto.
Qed.
Lemma alook_ejoin A B x : alook (ejoin A B) x = if in_dec string_dec x (map fst A) then ajoin (alook A x) (alook B x) else AOld.
Proof.
  induction A as [|[y a] t IH]; simpl; auto.
  destruct (String.eqb x y) eqn:E.
  - apply String.eqb_eq in E. subst. destruct (string_dec y y); [|congruence]. reflexivity.
  - rewrite IH. assert (N : y <> x) by (intro; subst; rewrite String.eqb_refl in E; discriminate).
    destruct (string_dec y x); [contradiction|].
    destruct (in_dec string_dec x (map fst t)); reflexivity.
Qed.
Lemma egam_ejoin_l n0 vs A B r : egam n0 vs A r -> egam n0 vs (ejoin A B) r.
Proof. intros G x. rewrite alook_ejoin. destruct (in_dec _ _ _); simpl; auto. apply gam_join_l. apply G. Qed.
Lemma egam_ejoin_r n0 vs A B r : egam n0 vs B r -> egam n0 vs (ejoin A B) r.
Proof. intros G x. rewrite alook_ejoin. destruct (in_dec _ _ _); simpl; auto. apply gam_join_r. apply G. Qed.
Lemma egam_ojoin_l n0 vs a b A r : a = Some A -> egam n0 vs A r -> exists C, ojoin a b = Some C /\ egam n0 vs C r.
Proof. intros -> G. destruct b as [B|]; simpl; eauto using egam_ejoin_l. Qed.
Lemma egam_ojoin_r n0 vs a b B r : b = Some B -> egam n0 vs B r -> exists C, ojoin a b = Some C /\ egam n0 vs C r.
Proof. intros -> G. destruct a as [A|]; simpl; eauto using egam_ejoin_r. Qed.
Lemma gam_orjoin_l n0 vs a b x v : a = Some x -> gam n0 vs x v -> exists c, orjoin a b = Some c /\ gam n0 vs c v.
Proof. intros -> G. destruct b; simpl; eauto using gam_join_l. Qed.
Lemma gam_orjoin_r n0 vs a b x v : b = Some x -> gam n0 vs x v -> exists c, orjoin a b = Some c /\ gam n0 vs c v.
Proof. intros -> G. destruct a; simpl; eauto using gam_join_r. Qed.

Lemma egam_eleb n0 vs A B r : eleb A B = true -> egam n0 vs A r -> egam n0 vs B r.
Proof.
  unfold eleb. intros H G x. induction B as [|[y b] t IH]; simpl; auto.
  simpl in H. apply andb_true_iff in H. destruct H as (H1 & H2).
  destruct (String.eqb x y) eqn:E; [|apply IH; auto].
  apply String.eqb_eq in E. subst. eapply gam_leb; eauto.
Qed.

Lemma alook_aset A x a y : alook (aset A x a) y =
  if String.eqb y x then (if in_dec string_dec x (map fst A) then a else AOld) else alook A y.
Proof.
  induction A as [|[z b] t IH]; simpl.
  - destruct (String.eqb y x); reflexivity.
  - destruct (String.eqb x z) eqn:E.
    + apply String.eqb_eq in E. subst z. simpl. destruct (String.eqb y x) eqn:E2.
      * destruct (string_dec x x); [reflexivity|congruence].
      * reflexivity.
    + simpl. assert (N : z <> x) by (intro; subst; rewrite String.eqb_refl in E; discriminate).
      destruct (String.eqb y z) eqn:E3.
      * apply String.eqb_eq in E3. subst z. destruct (String.eqb y x) eqn:E4; [apply String.eqb_eq in E4; congruence|reflexivity].
      * rewrite IH. destruct (String.eqb y x); [|reflexivity].
        destruct (string_dec z x); [contradiction|]. destruct (in_dec string_dec x (map fst t)); reflexivity.
Qed.
Lemma egam_aset n0 vs A r x a v : egam n0 vs A r -> gam n0 vs a v -> egam n0 vs (aset A x a) (upd r x v).
Proof.
  intros G Ga y. rewrite alook_aset. unfold upd. destruct (String.eqb y x); [|apply G].
  destruct (in_dec _ _ _); simpl; auto.
Qed.

Lemma alook_forget A xs x : alook (forget A xs) x = if existsb (String.eqb x) xs then AOld else alook A x.
Proof.
  induction A as [|[z b] t IH]; simpl.
  - destruct (existsb _ _); reflexivity.
  - destruct (existsb (String.eqb z) xs) eqn:Ez; simpl.
    + destruct (String.eqb x z) eqn:E.
      * apply String.eqb_eq in E. subst. rewrite Ez. reflexivity.
      * exact IH.
    + destruct (String.eqb x z) eqn:E.
      * apply String.eqb_eq in E. subst. rewrite Ez. reflexivity.
      * exact IH.
Qed.
Lemma egam_forget n0 vs A xs r r1 : egam n0 vs A r -> (forall x, ~ In x xs -> r1 x = r x) -> egam n0 vs (forget A xs) r1.
Proof.
  intros G AG x. rewrite alook_forget. destruct (existsb (String.eqb x) xs) eqn:E.
  - simpl; auto.
  - rewrite AG; [apply G|]. intro I. assert (existsb (String.eqb x) xs = true); [|congruence].
    apply existsb_exists. exists x. split; auto. apply String.eqb_refl.
Qed.

(* ---------- write sets ---------- *)
Lemma witem_eqb_eq a b : witem_eqb a b = true <-> a = b.
Proof.
  destruct a, b; simpl; split; intros H; try discriminate; try reflexivity; try congruence.
  - apply andb_true_iff in H. destruct H as (H1 & H2). apply Nat.eqb_eq in H1. apply String.eqb_eq in H2. subst. reflexivity.
  - inversion H. rewrite Nat.eqb_refl, String.eqb_refl. reflexivity.
  - apply Nat.eqb_eq in H. subst. reflexivity.
  - inversion H. apply Nat.eqb_refl.
Qed.
Lemma wmem_In w l : wmem w l = true <-> In w l.
Proof.
  unfold wmem. rewrite existsb_exists. split.
  - intros (x & I & E). apply witem_eqb_eq in E. subst. auto.
  - intros I. exists w. split; auto. apply witem_eqb_eq. reflexivity.
Qed.
Lemma In_wadd w x l : In w (wadd x l) <-> w = x \/ In w l.
Proof.
  unfold wadd. destruct (wmem x l) eqn:E.
  - apply wmem_In in E. split; [auto|]. intros [->|H]; auto.
  - rewrite in_app_iff. simpl. split; intros H; [destruct H as [H|[H|[]]]; auto|destruct H as [H|H]; auto].
Qed.
Lemma In_wunion w a b : In w (wunion a b) <-> In w a \/ In w b.
Proof.
  unfold wunion. revert a. induction b as [|x t IH]; intros a; simpl.
  - split; [auto|intros [H|[]]; auto].
  - rewrite IH, In_wadd. split; intros H.
    + destruct H as [[->|H]|H]; auto.
    + destruct H as [H|[->|H]]; auto.
Qed.
Lemma In_fold_wunion (F:witem -> list witem) w l acc :
  In w (fold_left (fun acc x => wunion acc (F x)) l acc) <-> In w acc \/ exists x, In x l /\ In w (F x).
Proof.
  revert acc. induction l as [|x t IH]; intros acc; simpl.
  - split; [auto|intros [H|(x & [] & _)]; auto].
  - rewrite IH, In_wunion. split; intros H.
    + destruct H as [[H|H]|(y & I & H)]; eauto.
    + destruct H as [H|(y & [->|I] & H)]; eauto.
Qed.
Lemma wsub_In a b w : wsub a b = true -> In w a -> In w b.
Proof. unfold wsub. rewrite forallb_forall. intros H I. apply wmem_In. auto. Qed.

Lemma allowed_mono vs w w' a k : (forall x, In x w -> In x w') -> allowed vs w a k -> allowed vs w' a k.
Proof. intros S [H|(i & E & [H|H])]; [left; auto|right; exists i; auto|right; exists i; auto]. Qed.
Lemma frame_mono n0 vs w w' h h' : (forall x, In x w -> In x w') -> frame n0 vs w h h' -> frame n0 vs w' h h'.
Proof. intros S (L & F). split; auto. intros a k La D. eapply allowed_mono; eauto. Qed.
Lemma frame_refl n0 vs w h : frame n0 vs w h h.
Proof. split; auto. intros a k _ D. congruence. Qed.
Lemma frame_trans n0 vs w h1 h2 h3 : frame n0 vs w h1 h2 -> frame n0 vs w h2 h3 -> frame n0 vs w h1 h3.
Proof.
  intros (L1 & F1) (L2 & F2). split; [lia|]. intros a k La D.
  destruct (hget h2 a k) eqn:E2; destruct (hget h1 a k) eqn:E1.
  - apply F2; auto. congruence.
  - apply F1; auto. congruence.
  - apply F1; auto. congruence.
  - destruct (Nat.eq_dec a0 a1).
    + subst. apply F2; auto. congruence.
    + apply F1; auto. congruence.
Qed.

(* ---------- heap updates ---------- *)
Lemma hrepl_length h a o : List.length (hrepl h a o) = List.length h.
Proof. revert a. induction h as [|x t IH]; intros [|a]; simpl; auto. Qed.
Lemma hget_hrepl_other h a o b k : b <> a -> hget (hrepl h a o) b k = hget h b k.
Proof.
  unfold hget. revert a b. induction h as [|x t IH]; intros [|a] [|b] N; simpl; auto; try congruence.
Qed.
Lemma hget_hrepl_same h a o k : a < List.length h -> hget (hrepl h a o) a k = o k.
Proof.
  unfold hget. revert a. induction h as [|x t IH]; intros [|a] L; simpl in *; try lia; auto.
  apply IH. lia.
Qed.
Lemma hget_app_old h o a k : a < List.length h -> hget (h ++ [o])%list a k = hget h a k.
Proof. unfold hget. intros L. rewrite nth_error_app1; auto. Qed.

(* ---------- the main lemma ---------- *)
Section Sound.
Variable cs : string -> list val -> heap -> heap -> out -> Prop.
Variable Sg : sigma.
Hypothesis cs_ok : forall f vs h h' o, cs f vs h h' o -> respects (slook Sg f) vs h h' o.

Definition post (n0:nat) (vs:list val) (R:ares) (r':env) (o:out) : Prop :=
  match o with
  | ONorm => exists A', r_norm R = Some A' /\ egam n0 vs A' r'
  | OBrk => exists A', r_brk R = Some A' /\ egam n0 vs A' r'
  | OCont => exists A', r_cont R = Some A' /\ egam n0 vs A' r'
  | ORet v => exists a, r_ret R = Some a /\ gam n0 vs a v
  | OExc => True
  end.
Definition sound_stmt (s:stmt) : Prop :=
  forall r h r' h' o, exec cs s r h r' h' o ->
  forall n0 vs A, n0 <= List.length h -> egam n0 vs A r ->
    frame n0 vs (r_w (an Sg s A)) h h' /\ post n0 vs (an Sg s A) r' o.

Lemma exec_assigned s r h r' h' o : exec cs s r h r' h' o -> forall x, ~ In x (assigned s) -> r' x = r x.
Proof.
  induction 1; intros z NI; simpl in *; auto;
    try (unfold upd; destruct (String.eqb z x) eqn:E; [apply String.eqb_eq in E; subst; exfalso; apply NI; auto|reflexivity]).
  - rewrite IHexec2, IHexec1; auto; intro; apply NI; apply in_or_app; auto.
  - apply IHexec. intro. apply NI. apply in_or_app. auto.
  - apply IHexec. intro. apply NI. apply in_or_app. auto.
  - apply IHexec. intro. apply NI. apply in_or_app. auto.
  - rewrite IHexec2, IHexec1; auto.
  - apply IHexec. intro. apply NI. apply in_or_app. auto.
  - rewrite IHexec2, IHexec1; auto; intro; apply NI; apply in_or_app; auto.
Qed.

Lemma exec_heap_grows s r h r' h' o : exec cs s r h r' h' o -> List.length h <= List.length h'.
Proof.
  induction 1; simpl; auto; try lia.
  - rewrite app_length. simpl. lia.
  - apply cs_ok in H. destruct H as ((L & _) & _). exact L.
  - apply cs_ok in H. destruct H as ((L & _) & _). exact L.
  - apply cs_ok in H. destruct H as ((L & _) & _). exact L.
  - rewrite hrepl_length. lia.
  - rewrite hrepl_length. lia.
Qed.

Lemma store_frame n0 vs A r x a k o h :
  egam n0 vs A r -> r x = VRef a -> a < List.length h ->
  (forall k', k' <> k -> o k' = hget h a k') ->
  frame n0 vs (wstore (alook A x) (Some k)) h (hrepl h a o).
Proof.
  intros G E L Same. split; [rewrite hrepl_length; lia|].
  intros b k' Lb D. destruct (Nat.eq_dec b a) as [->|N].
  - rewrite hget_hrepl_same in D; auto.
    destruct (string_dec k' k) as [->|NK]; [|exfalso; apply D; apply Same; auto].
    specialize (G x). rewrite E in G. destruct (alook A x); simpl in *.
    + specialize (G a eq_refl). lia.
    + right. exists i. split; auto. left. left. reflexivity.
    + destruct G as [G|G]; [|specialize (G a eq_refl); lia]. right. exists i. split; auto. left. left. reflexivity.
    + left. left. reflexivity.
  - rewrite hget_hrepl_other in D; auto. congruence.
Qed.
Lemma storeany_frame n0 vs A r x a o h :
  egam n0 vs A r -> r x = VRef a -> a < List.length h ->
  frame n0 vs (wstore (alook A x) None) h (hrepl h a o).
Proof.
  intros G E L. split; [rewrite hrepl_length; lia|].
  intros b k' Lb D. destruct (Nat.eq_dec b a) as [->|N].
  - specialize (G x). rewrite E in G. destruct (alook A x); simpl in *.
    + specialize (G a eq_refl). lia.
    + right. exists i. split; auto. right. left. reflexivity.
    + destruct G as [G|G]; [|specialize (G a eq_refl); lia]. right. exists i. split; auto. right. left. reflexivity.
    + left. left. reflexivity.
  - rewrite hget_hrepl_other in D; auto. congruence.
Qed.

(* a call seen from the caller *)
Lemma call_frame n0 vs A r f ys h hf o :
  n0 <= List.length h -> egam n0 vs A r -> cs f (map r ys) h hf o ->
  frame n0 vs (fold_left (fun acc w => wunion acc (wcall A ys w)) (s_w (slook Sg f)) []) h hf.
Proof.
  intros L0 G C. apply cs_ok in C. destruct C as ((L & F) & _). split; auto.
  intros a k La D. destruct (F a k ltac:(lia) D) as [HA|(i & E & HW)].
  - left. apply In_fold_wunion. right. exists WAny. split; auto. simpl. auto.
  - assert (LT : i < List.length ys).
    { destruct (Nat.lt_ge_cases i (List.length ys)); auto.
      rewrite nth_overflow in E; [discriminate|]. rewrite map_length. lia. }
    destruct (nth_error ys i) as [y|] eqn:NE; [|apply nth_error_None in NE; lia].
    assert (EV : r y = VRef a).
    { rewrite <- E. erewrite nth_indep with (d' := r y); [|rewrite map_length; auto].
      rewrite map_nth. f_equal. symmetry. apply nth_error_nth. exact NE. }
    pose proof (G y) as Gy. rewrite EV in Gy.
    assert (IW : forall kk wi, (wi = WField i k /\ kk = Some k) \/ (wi = WAll i /\ kk = None) -> In wi (s_w (slook Sg f)) ->
                 allowed vs (fold_left (fun acc w => wunion acc (wcall A ys w)) (s_w (slook Sg f)) []) a k).
    { intros kk wi SH IN.
      assert (WC : wcall A ys wi = wstore (alook A y) kk).
      { destruct SH as [(-> & ->)|(-> & ->)]; simpl; rewrite NE; reflexivity. }
      assert (PM : forall i0, a = a -> nth i0 vs VScalar = VRef a -> wstore (alook A y) kk = match kk with Some k => [WField i0 k] | None => [WAll i0] end ->
                   allowed vs (fold_left (fun acc w => wunion acc (wcall A ys w)) (s_w (slook Sg f)) []) a k).
      { intros i0 _ EA WS. right. exists i0. split; auto.
        destruct SH as [(-> & ->)|(-> & ->)].
        + left. apply In_fold_wunion. right. exists (WField i k). split; auto. rewrite WC, WS. simpl. auto.
        + right. apply In_fold_wunion. right. exists (WAll i). split; auto. rewrite WC, WS. simpl. auto. }
      destruct (alook A y) eqn:AY; simpl in Gy.
      - specialize (Gy a eq_refl). lia.
      - apply (PM i0 eq_refl); [symmetry; exact Gy|reflexivity].
      - destruct Gy as [Gy|Gy]; [|specialize (Gy a eq_refl); lia]. apply (PM i0 eq_refl); [symmetry; exact Gy|reflexivity].
      - left. apply In_fold_wunion. right. exists wi. split; auto. rewrite WC. simpl. auto. }
    destruct HW as [HW|HW]; [eapply (IW (Some k)); eauto|eapply (IW None); eauto].
Qed.
Lemma call_ret n0 vs A r f ys h hf o v :
  n0 <= List.length h -> egam n0 vs A r -> cs f (map r ys) h hf o ->
  (o = ORet v \/ (o = ONorm /\ v = VScalar)) ->
  gam n0 vs (rcall A ys (s_r (slook Sg f))) v.
Proof.
  intros L0 G C OV. apply cs_ok in C. destruct C as (_ & GR).
  assert (GR' : gam (List.length h) (map r ys) (s_r (slook Sg f)) v).
  { destruct OV as [->|(-> & ->)]; exact GR. }
  clear GR. destruct (s_r (slook Sg f)) eqn:SR; simpl in *; auto.
  - intros b E. specialize (GR' b E). lia.
  - destruct (nth_error ys i) as [y|] eqn:NE.
    + assert (EV : v = r y).
      { rewrite GR'. assert (LT : i < List.length ys) by (apply nth_error_Some; congruence).
        erewrite nth_indep with (d' := r y); [|rewrite map_length; auto].
        rewrite map_nth. f_equal. apply nth_error_nth. exact NE. }
      rewrite EV. apply G.
    + apply nth_error_None in NE. rewrite nth_overflow in GR'; [|rewrite map_length; auto]. subst. simpl. intros b E. discriminate.
  - destruct (nth_error ys i) as [y|] eqn:NE.
    + destruct GR' as [GR'|GR'].
      * assert (EV : v = r y).
        { rewrite GR'. assert (LT : i < List.length ys) by (apply nth_error_Some; congruence).
          erewrite nth_indep with (d' := r y); [|rewrite map_length; auto].
          rewrite map_nth. f_equal. apply nth_error_nth. exact NE. }
        rewrite EV. apply gam_join_l. apply G.
      * apply gam_join_r. simpl. intros b E. specialize (GR' b E). lia.
    + apply nth_error_None in NE. destruct GR' as [GR'|GR'].
      * rewrite nth_overflow in GR'; [|rewrite map_length; auto]. subst. simpl. intros b E. discriminate.
      * simpl. intros b E. specialize (GR' b E). lia.
Qed.

Lemma in_wunion_l a b x : In x a -> In x (wunion a b). Proof. intros. apply In_wunion. auto. Qed.
Lemma in_wunion_r a b x : In x b -> In x (wunion a b). Proof. intros. apply In_wunion. auto. Qed.

Lemma alook_top A x : alook (map (fun p : var * aval => (fst p, AOld)) A) x = AOld.
Proof. induction A as [|[y a] t IH]; simpl; auto. destruct (String.eqb x y); auto. Qed.
Lemma frame_any n0 vs h h' : List.length h <= List.length h' -> frame n0 vs [WAny] h h'.
Proof. intros L. split; auto. intros a k _ _. left. left. reflexivity. Qed.
Lemma post_top n0 vs A r' o : post n0 vs (rtop A) r' o.
Proof.
  unfold rtop. destruct o; simpl; auto;
    try (eexists; split; [reflexivity|]; intros x; rewrite alook_top; exact I).
  exists AOld. split; auto. exact I.
Qed.

Lemma loop_no_brk b r h r' h' o : exec cs (SLoop b) r h r' h' o -> o <> OBrk /\ o <> OCont.
Proof.
  intros EX. remember (SLoop b) as s eqn:Es. induction EX; inversion Es; subst; try (split; discriminate); auto.
  match goal with H : _ = OExc \/ _ |- _ => destruct H as [->|(v & ->)]; split; discriminate end.
Qed.

Lemma sound_seq a b : sound_stmt a -> sound_stmt b -> sound_stmt (SSeq a b).
Proof.
  intros IHa IHb r h r' h' o EX n0 vs A L0 G. inversion EX; subst.
  - split; [apply frame_refl|exact I].
  - match goal with Ha : exec cs a r h ?r1 ?h1 ONorm, Hb : exec cs b ?r1 ?h1 r' h' o |- _ =>
      rename Ha into XA; rename Hb into XB end.
    destruct (IHa _ _ _ _ _ XA n0 vs A L0 G) as (F1 & (A1 & N1 & G1)). simpl. rewrite N1.
    assert (L1 : n0 <= List.length h1) by (apply exec_heap_grows in XA; lia).
    destruct (IHb _ _ _ _ _ XB n0 vs A1 L1 G1) as (F2 & P2). split.
    + eapply frame_trans; (eapply frame_mono; [|eassumption]); intros; [apply in_wunion_l|apply in_wunion_r]; auto.
    + destruct o; simpl in *; auto.
      * destruct P2 as (x & E & Gx). eapply gam_orjoin_r; eauto.
      * destruct P2 as (x & E & Gx). eapply egam_ojoin_r; eauto.
      * destruct P2 as (x & E & Gx). eapply egam_ojoin_r; eauto.
  - match goal with Ha : exec cs a r h r' h' o |- _ => rename Ha into XA end.
    destruct (IHa _ _ _ _ _ XA n0 vs A L0 G) as (F1 & P1). simpl.
    destruct (r_norm (an Sg a A)) as [A1|] eqn:N1; [|split; auto].
    split; [eapply frame_mono; [|eassumption]; intros; apply in_wunion_l; auto|].
    destruct o; simpl in *; auto; try congruence.
    + destruct P1 as (x & E & Gx). eapply gam_orjoin_l; eauto.
    + destruct P1 as (x & E & Gx). eapply egam_ojoin_l; eauto.
    + destruct P1 as (x & E & Gx). eapply egam_ojoin_l; eauto.
Qed.

Lemma post_join_l n0 vs ra rb r' o w :
  post n0 vs ra r' o ->
  post n0 vs (mkr (ojoin (r_norm ra) (r_norm rb)) (ojoin (r_brk ra) (r_brk rb)) (ojoin (r_cont ra) (r_cont rb))
                  (orjoin (r_ret ra) (r_ret rb)) w) r' o.
Proof.
  destruct o; simpl; auto; intros (x & E & Gx); [eapply egam_ojoin_l|eapply gam_orjoin_l|eapply egam_ojoin_l|eapply egam_ojoin_l]; eauto.
Qed.
Lemma post_join_r n0 vs ra rb r' o w :
  post n0 vs rb r' o ->
  post n0 vs (mkr (ojoin (r_norm ra) (r_norm rb)) (ojoin (r_brk ra) (r_brk rb)) (ojoin (r_cont ra) (r_cont rb))
                  (orjoin (r_ret ra) (r_ret rb)) w) r' o.
Proof.
  destruct o; simpl; auto; intros (x & E & Gx); [eapply egam_ojoin_r|eapply gam_orjoin_r|eapply egam_ojoin_r|eapply egam_ojoin_r]; eauto.
Qed.

Definition loop_step (b:stmt) (X:aenv) : aenv :=
  match ojoin (Some X) (ojoin (r_norm (an Sg b X)) (r_cont (an Sg b X))) with Some Y => Y | None => X end.
Definition loop_inv (b:stmt) (A:aenv) : aenv := iter loop_fuel (loop_step b) A.
Lemma an_loop_eq b A : an Sg (SLoop b) A =
  if eleb A (loop_inv b A) && oleb (r_norm (an Sg b (loop_inv b A))) (loop_inv b A) && oleb (r_cont (an Sg b (loop_inv b A))) (loop_inv b A)
  then mkr (ojoin (Some (loop_inv b A)) (r_brk (an Sg b (loop_inv b A)))) None None (r_ret (an Sg b (loop_inv b A))) (r_w (an Sg b (loop_inv b A)))
  else rtop A.
Proof. reflexivity. Qed.

Lemma sound_loop b : sound_stmt b -> sound_stmt (SLoop b).
Proof.
  intros IHb r h r' h' o EX n0 vs A L0 G. rewrite an_loop_eq.
  set (Ainv := loop_inv b A).
  set (stepf := fun X => match ojoin (Some X) (ojoin (r_norm (an Sg b X)) (r_cont (an Sg b X))) with Some Y => Y | None => X end).
  clear stepf.
  destruct (eleb A Ainv && oleb (r_norm (an Sg b Ainv)) Ainv && oleb (r_cont (an Sg b Ainv)) Ainv) eqn:CK.
  2:{ split; [unfold rtop; simpl r_w; apply frame_any; eapply exec_heap_grows; eauto|apply post_top]. }
  apply andb_true_iff in CK. destruct CK as (CK & C3). apply andb_true_iff in CK. destruct CK as (C1 & C2).
  assert (GI : egam n0 vs Ainv r) by (eapply egam_eleb; eauto).
  clear G C1. generalize dependent n0. remember (SLoop b) as s eqn:Es.
  induction EX; inversion Es; subst; intros n0 L0 GI.
  - split; [apply frame_refl|exact I].
  - split; [apply frame_refl|]. exact (egam_ojoin_l _ _ _ _ _ _ eq_refl GI).
  - destruct (IHb _ _ _ _ _ EX1 n0 vs Ainv L0 GI) as (F1 & P1).
    assert (G1 : egam n0 vs Ainv r1).
    { destruct H as [->| ->]; simpl in P1; destruct P1 as (A' & E & GA).
      - rewrite E in C2. simpl in C2. eapply egam_eleb; eauto.
      - rewrite E in C3. simpl in C3. eapply egam_eleb; eauto. }
    assert (L1 : n0 <= List.length h1) by (apply exec_heap_grows in EX1; lia).
    destruct (IHEX2 eq_refl n0 L1 G1) as (F2 & P2). split; auto. eapply frame_trans; eauto.
  - destruct (IHb _ _ _ _ _ EX n0 vs Ainv L0 GI) as (F1 & (A' & E & GA)). split; auto.
    exact (egam_ojoin_r _ _ _ _ _ _ E GA).
  - destruct (IHb _ _ _ _ _ EX n0 vs Ainv L0 GI) as (F1 & P1). split; auto.
    destruct H as [->|(v & ->)]; simpl in *; auto.
Qed.

Lemma sound_try b hd : sound_stmt b -> sound_stmt hd -> sound_stmt (STry b hd).
Proof.
  intros IHb IHh r h r' h' o EX n0 vs A L0 G. inversion EX; subst.
  - split; [apply frame_refl|exact I].
  - match goal with Hb : exec cs b r h r' h' o |- _ => rename Hb into XB end.
    destruct (IHb _ _ _ _ _ XB n0 vs A L0 G) as (F1 & P1). simpl. split.
    + eapply frame_mono; [|eassumption]. intros. apply in_wunion_l. auto.
    + apply post_join_l. exact P1.
  - match goal with Hb : exec cs b r h ?r1 ?h1 OExc, Hh : exec cs hd ?r1 ?h1 r' h' o |- _ =>
      rename Hb into XB; rename Hh into XH end.
    destruct (IHb _ _ _ _ _ XB n0 vs A L0 G) as (F1 & _).
    assert (G1 : egam n0 vs (forget A (assigned b)) r1).
    { eapply egam_forget; eauto. intros x NI. eapply exec_assigned; eauto. }
    assert (L1 : n0 <= List.length h1) by (apply exec_heap_grows in XB; lia).
    destruct (IHh _ _ _ _ _ XH n0 vs _ L1 G1) as (F2 & P2). simpl. split.
    + eapply frame_trans; (eapply frame_mono; [|eassumption]); intros; [apply in_wunion_l|apply in_wunion_r]; auto.
    + apply post_join_r. exact P2.
Qed.

Lemma sound_all : forall s, sound_stmt s.
Proof.
  induction s as [|x rh|x k|x|a IHa b IHb|a IHa b IHb|b IHb| | |x| |b IHb hd IHh].
  - (* skip *) intros r h r' h' o EX n0 vs A L0 G. inversion EX; subst; simpl; split; try apply frame_refl; eauto.
  - (* assign *)
    intros r h r' h' o EX n0 vs A L0 G.
    inversion EX; subst; simpl; try (split; [apply frame_refl|exact I]).
    + split; [apply frame_refl|]. exists (aset A x (alook A y)). split; auto. apply egam_aset; auto.
    + split; [apply frame_refl|]. exists (aset A x ANew). split; auto. apply egam_aset; auto. simpl. intros b E. discriminate.
    + split; [split; [rewrite app_length; simpl; lia|]|].
      * intros a k La D. rewrite hget_app_old in D by lia. congruence.
      * exists (aset A x ANew). split; auto. apply egam_aset; auto. simpl. intros b E. inversion E. subst. lia.
    + split; [apply frame_refl|]. exists (aset A x AOld). split; auto. apply egam_aset; simpl; auto.
    + split; [eapply call_frame; eauto|]. eexists. split; [reflexivity|]. apply egam_aset; auto. eapply call_ret; eauto.
    + split; [eapply call_frame; eauto|]. eexists. split; [reflexivity|]. apply egam_aset; auto. eapply call_ret; eauto.
    + split; [eapply call_frame; eauto|exact I].
  - (* store *)
    intros r h r' h' o EX n0 vs A L0 G. inversion EX; subst; simpl.
    + split; [apply frame_refl|exact I].
    + split; [|eauto]. eapply store_frame; eauto. intros k' NK. unfold oset.
      destruct (String.eqb k' k) eqn:E; [apply String.eqb_eq in E; contradiction|reflexivity].
  - (* store any *)
    intros r h r' h' o EX n0 vs A L0 G. inversion EX; subst; simpl.
    + split; [apply frame_refl|exact I].
    + split; [|eauto]. eapply storeany_frame; eauto.
  - apply sound_seq; auto.
  - (* if *)
    intros r h r' h' o EX n0 vs A L0 G. inversion EX; subst; simpl.
    + split; [apply frame_refl|exact I].
    + match goal with Ha : exec cs a r h r' h' o |- _ => rename Ha into XA end.
      destruct (IHa _ _ _ _ _ XA n0 vs A L0 G) as (F1 & P1). split.
      * eapply frame_mono; [|eassumption]. intros. apply in_wunion_l. auto.
      * apply post_join_l. exact P1.
    + match goal with Hb : exec cs b r h r' h' o |- _ => rename Hb into XB end.
      destruct (IHb _ _ _ _ _ XB n0 vs A L0 G) as (F1 & P1). split.
      * eapply frame_mono; [|eassumption]. intros. apply in_wunion_r. auto.
      * apply post_join_r. exact P1.
  - apply sound_loop; auto.
  - intros r h r' h' o EX n0 vs A L0 G. inversion EX; subst; simpl; split; try apply frame_refl; eauto.
  - intros r h r' h' o EX n0 vs A L0 G. inversion EX; subst; simpl; split; try apply frame_refl; eauto.
  - intros r h r' h' o EX n0 vs A L0 G. inversion EX; subst; simpl; split; try apply frame_refl; eauto.
  - intros r h r' h' o EX n0 vs A L0 G. inversion EX; subst; simpl; split; try apply frame_refl; eauto.
  - apply sound_try; auto.
Qed.
End Sound.

(* ---------- tying the knot over the call depth ---------- *)
Fixpoint index_of (x:var) (ps:list var) : option nat :=
  match ps with [] => None | p :: t => if String.eqb x p then Some 0 else option_map S (index_of x t) end.
Lemma bind_lookup ps : forall vs x, bind ps vs env0 x = match index_of x ps with Some j => nth j vs VScalar | None => VScalar end.
Proof.
  induction ps as [|p t IH]; intros vs x; simpl.
  - destruct vs; reflexivity.
  - destruct vs as [|v vs']; simpl.
    + destruct (String.eqb x p); [reflexivity|]. destruct (index_of x t) as [j|]; simpl; [destruct j|]; reflexivity.
    + unfold upd. destruct (String.eqb x p); [reflexivity|]. rewrite IH. destruct (index_of x t); reflexivity.
Qed.
Lemma alook_init_params ps L : forall i x,
  alook (init_params ps i ++ L)%list x = match index_of x ps with Some j => AParam (i + j) | None => alook L x end.
Proof.
  induction ps as [|p t IH]; intros i x; simpl; auto.
  destruct (String.eqb x p); [f_equal; lia|]. rewrite IH. destruct (index_of x t); simpl; auto; f_equal; lia.
Qed.
Lemma alook_locals ls x : alook (map (fun y : var => (y, ANew)) ls) x = ANew \/ alook (map (fun y : var => (y, ANew)) ls) x = AOld.
Proof. induction ls as [|y t IH]; simpl; auto. destruct (String.eqb x y); auto. Qed.
Lemma init_env_gam n0 m vs : egam n0 vs (init_env m) (bind (m_params m) vs env0).
Proof.
  intros x. unfold init_env. rewrite alook_init_params, bind_lookup.
  destruct (index_of x (m_params m)) as [j|]; simpl; auto.
  destruct (alook_locals (m_locals m) x) as [-> | ->]; simpl; auto. intros b E. discriminate.
Qed.
Lemma find_In f t m : find f t = Some m -> In (f, m) t.
Proof.
  induction t as [|[g m'] t' IH]; simpl; [discriminate|].
  destruct (String.eqb f g) eqn:E; intros H.
  - apply String.eqb_eq in E. inversion H. subst. left. reflexivity.
  - right. auto.
Qed.

Theorem callsem_sound (tbl:table) (Sg:sigma) : stable tbl Sg = true ->
  forall n f vs h h' o, callsem tbl n f vs h h' o -> respects (slook Sg f) vs h h' o.
Proof.
  intros ST. induction n as [|n IH]; intros f vs h h' o C; simpl in C; [contradiction|].
  destruct C as (m & r' & FD & EX).
  destruct (sound_all (callsem tbl n) Sg IH _ _ _ _ _ _ EX (List.length h) vs (init_env m) (le_n _) (init_env_gam _ _ _)) as (F & P).
  unfold stable in ST. rewrite forallb_forall in ST. specialize (ST _ (find_In _ _ _ FD)). simpl in ST.
  unfold sum_leb in ST. apply andb_true_iff in ST. destruct ST as (S1 & S2).
  split.
  - eapply frame_mono; [|exact F]. intros w I. eapply wsub_In; eauto.
  - unfold an_meth in S2. simpl in S2.
    destruct o; simpl in *; auto.
    + destruct P as (A' & E & _). rewrite E in S2.
      destruct (gam_orjoin_r (List.length h) vs (r_ret (an Sg (m_body m) (init_env m))) (Some ANew) ANew VScalar eq_refl) as (c & E2 & Gc).
      { simpl. intros b Eb. discriminate. }
      rewrite E2 in S2. eapply gam_leb; eauto.
    + destruct P as (a & E & Ga).
      destruct (gam_orjoin_l (List.length h) vs (r_ret (an Sg (m_body m) (init_env m)))
                  (match r_norm (an Sg (m_body m) (init_env m)) with Some _ => Some ANew | None => None end) a v E Ga) as (c & E2 & Gc).
      rewrite E2 in S2. eapply gam_leb; eauto.
Qed.
