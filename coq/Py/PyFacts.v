(* The analysis of PyMini.v run on the table generated from cvise/passes/*.py. *)
From Coq Require Import List String Bool Arith Lia.
Import ListNotations.
From CV Require Import Py.PyMini Py.PyMiniProofs Gen.PyMethods.
Local Open Scope string_scope.

Definition Sg : sigma := Eval vm_compute in summaries py_table.
Lemma Sg_stable : stable py_table Sg = true.
Proof. vm_compute. reflexivity. Qed.

Definition writes_within (allow:list witem) (f:string) : bool := wsub (s_w (slook Sg f)) allow.

Lemma val_eq_dec (a b:val) : {a = b} + {a <> b}.
Proof. decide equality. apply Nat.eq_dec. Qed.

(* every execution (any call depth, any arguments, any heap) of a translated method stays within its summary *)
Lemma table_sound n f vs h h' o : callsem py_table n f vs h h' o -> respects (slook Sg f) vs h h' o.
Proof. apply callsem_sound. exact Sg_stable. Qed.

Lemma changed_allowed n f vs h h' o allow :
  writes_within allow f = true -> callsem py_table n f vs h h' o ->
  forall a k, a < List.length h -> hget h' a k <> hget h a k -> allowed vs allow a k.
Proof.
  intros W C a k La D. destruct (table_sound _ _ _ _ _ _ C) as ((_ & F) & _).
  eapply allowed_mono; [|apply F; eauto]. intros w I. eapply wsub_In; eauto.
Qed.
Lemma unchanged n f vs h h' o :
  writes_within [] f = true -> callsem py_table n f vs h h' o ->
  forall a k, a < List.length h -> hget h' a k = hget h a k.
Proof.
  intros W C a k La. destruct (val_eq_dec (hget h' a k) (hget h a k)) as [E|D]; auto.
  destruct (changed_allowed _ _ _ _ _ _ _ W C a k La D) as [[]|(i & _ & [[]|[]])].
Qed.

(* the tables *)
Lemma advance_pure : forallb (fun p => writes_within [] (fst p)) advance_methods = true.
Proof. vm_compute. reflexivity. Qed.
Lemma binary_state_pure :
  forallb (fun f => String.eqb f "BinaryState.advance_on_success" || writes_within [] f) binary_state_methods = true /\
  writes_within [WField 0 "instances"] "BinaryState.advance_on_success" = true.
Proof. vm_compute. auto. Qed.
Lemma aos_effects :
  forallb (fun p => writes_within [WField (snd p) "instances"; WField (snd p) "real_num_instances"] (fst p)) advance_on_success_methods = true.
Proof. vm_compute. reflexivity. Qed.
(* parameter 3 of transform is the process-event notifier *)
Lemma transform_effects :
  forallb (fun p => if String.eqb (fst p) "ClangBinarySearchPass.transform"
                    then writes_within [WAll 3; WField (snd p) "real_num_instances"] (fst p)
                    else writes_within [WAll 3] (fst p)) transform_methods = true.
Proof. vm_compute. reflexivity. Qed.
Lemma new_effects :
  forallb (fun p => writes_within [WField 0 "bailout"; WField 0 "clang_delta_std"] (fst p)) new_methods = true.
Proof. vm_compute. reflexivity. Qed.
Lemma cursor_params :
  forallb (fun p => Nat.eqb (snd p) 2) (advance_methods ++ advance_on_success_methods ++ transform_methods) = true.
Proof. vm_compute. reflexivity. Qed.

(* advance hands back a scalar / None or an object allocated during the call: never the cursor it
   was given nor any other pre-existing object (no aliasing between handed-out cursors) *)
Lemma advance_fresh : forallb (fun p => aval_eqb (s_r (slook Sg (fst p))) ANew) advance_methods = true.
Proof. vm_compute. reflexivity. Qed.
Lemma returns_fresh n f vs h h' v :
  aval_eqb (s_r (slook Sg f)) ANew = true -> callsem py_table n f vs h h' (ORet v) ->
  forall b, v = VRef b -> List.length h <= b.
Proof.
  intros E C. destruct (table_sound _ _ _ _ _ _ C) as (_ & G). cbn beta iota in G.
  apply aval_eqb_eq in E. destruct (s_r (slook Sg f)); try discriminate. exact G.
Qed.

(* the model can express the defect the property excludes, and the analysis reports it *)
Definition bad_advance : meth :=
  mkm ["self"; "test_case"; "state"] [] (SSeq (SStore "state" "index") (SReturn "state")).
Lemma bad_advance_flagged : s_w (an_meth [] bad_advance) = [WField 2 "index"].
Proof. vm_compute. reflexivity. Qed.
Lemma bad_advance_writes :
  exists h h', callsem [("Bad.advance", bad_advance)] 1 "Bad.advance" [VScalar; VScalar; VRef 0] h h' (ORet (VRef 0)) /\
               hget h' 0 "index" <> hget h 0 "index".
Proof.
  exists [fun _ => VScalar], [oset (fun k' => hget [fun _ => VScalar] 0 k') "index" (VRef 7)]. split.
  - simpl. exists bad_advance, (bind ["self"; "test_case"; "state"] [VScalar; VScalar; VRef 0] env0). split; [reflexivity|].
    unfold bad_advance. simpl. eapply E_seq_norm.
    + apply (E_store _ "state" "index" _ [fun _ => VScalar] 0 (VRef 7)); [reflexivity|simpl; lia].
    + apply (E_return _ "state").
  - vm_compute. discriminate.
Qed.
