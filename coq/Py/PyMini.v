(* PyMini: a small imperative IR for the cursor-handling methods of the passes, with a heap of
   mutable objects, and an abstract interpretation that computes, for every method, which fields
   of which PARAMETER objects an execution may write and whether the result may alias an object
   that existed before the call.  Definitions only; soundness in PyMiniProofs.v.

   Reads are over-approximated (a read yields an arbitrary value), control flow is
   nondeterministic (conditions are pure), any statement may raise.  Hence every behaviour of the
   Python method is a behaviour of its translation as far as writes to pre-existing objects are
   concerned (trusted: the translator tools/gen/pymini.py and its whitelist of library calls that
   do not write through their arguments). *)
From Coq Require Import List String Bool Arith Lia.
Import ListNotations.
Local Open Scope string_scope.

Definition var := string.
Definition key := string.

Inductive val := VScalar | VRef (a:nat).
Definition obj := key -> val.
Definition heap := list obj.
Definition env := var -> val.

Definition upd (r:env) (x:var) (v:val) : env := fun y => if String.eqb y x then v else r y.
Definition hget (h:heap) (a:nat) (k:key) : val :=
  match nth_error h a with Some o => o k | None => VScalar end.
Fixpoint hrepl (h:heap) (a:nat) (o:obj) : heap :=
  match h, a with
  | [], _ => []
  | _ :: t, 0 => o :: t
  | x :: t, S a' => x :: hrepl t a' o
  end.
Definition oset (o:obj) (k:key) (v:val) : obj := fun k' => if String.eqb k' k then v else o k'.

Inductive rhs :=
| RVar (y:var)                           (* alias *)
| RFresh                                 (* a scalar or a newly allocated object: literal, arithmetic, copy(), library call result *)
| RAny                                   (* any value at all: attribute / subscript read, result of a call that may return its argument *)
| RCall (f:string) (args:list var).      (* call of another translated method *)

Inductive stmt :=
| SSkip
| SAssign (x:var) (r:rhs)
| SStore (x:var) (k:key)                 (* x.k = ... / x['k'] = ... / x.k += ... *)
| SStoreAny (x:var)                      (* x[e] = ..., del x[...], x.append(...) and the like *)
| SSeq (a b:stmt)
| SIf (a b:stmt)
| SLoop (b:stmt)
| SBreak | SContinue
| SReturn (x:var)
| SRaise
| STry (b h:stmt).                       (* h runs if b raised *)

Record meth := mkm { m_params : list var; m_locals : list var; m_body : stmt }.
Definition table := list (string * meth).
Fixpoint find (f:string) (t:table) : option meth :=
  match t with [] => None | (g, m) :: t' => if String.eqb f g then Some m else find f t' end.

Fixpoint bind (ps:list var) (vs:list val) (r:env) : env :=
  match ps, vs with
  | p :: ps', v :: vs' => upd (bind ps' vs' r) p v
  | _, _ => r
  end.
Definition env0 : env := fun _ => VScalar.

Inductive out := ONorm | ORet (v:val) | OExc | OBrk | OCont.

Section Exec.
(* what a call of a translated method may do: (name, arguments, heap before, heap after, outcome) *)
Variable cs : string -> list val -> heap -> heap -> out -> Prop.
Inductive exec : stmt -> env -> heap -> env -> heap -> out -> Prop :=
| E_raise s r h : exec s r h r h OExc
| E_skip r h : exec SSkip r h r h ONorm
| E_var x y r h : exec (SAssign x (RVar y)) r h (upd r x (r y)) h ONorm
| E_fresh_scalar x r h : exec (SAssign x RFresh) r h (upd r x VScalar) h ONorm
| E_fresh_obj x r h o : exec (SAssign x RFresh) r h (upd r x (VRef (List.length h))) (h ++ [o])%list ONorm
| E_any x r h v : exec (SAssign x RAny) r h (upd r x v) h ONorm
| E_call_norm x f ys r h hf :
    cs f (map r ys) h hf ONorm -> exec (SAssign x (RCall f ys)) r h (upd r x VScalar) hf ONorm
| E_call_ret x f ys r h hf v :
    cs f (map r ys) h hf (ORet v) -> exec (SAssign x (RCall f ys)) r h (upd r x v) hf ONorm
| E_call_exc x f ys r h hf :
    cs f (map r ys) h hf OExc -> exec (SAssign x (RCall f ys)) r h r hf OExc
| E_store x k r h a v : r x = VRef a -> a < List.length h ->
    exec (SStore x k) r h r (hrepl h a (oset (fun k' => hget h a k') k v)) ONorm
| E_storeany x r h a o : r x = VRef a -> a < List.length h ->
    exec (SStoreAny x) r h r (hrepl h a o) ONorm
| E_seq_norm a b r h r1 h1 r2 h2 o :
    exec a r h r1 h1 ONorm -> exec b r1 h1 r2 h2 o -> exec (SSeq a b) r h r2 h2 o
| E_seq_stop a b r h r1 h1 o : o <> ONorm -> exec a r h r1 h1 o -> exec (SSeq a b) r h r1 h1 o
| E_if_l a b r h r1 h1 o : exec a r h r1 h1 o -> exec (SIf a b) r h r1 h1 o
| E_if_r a b r h r1 h1 o : exec b r h r1 h1 o -> exec (SIf a b) r h r1 h1 o
| E_loop_done b r h : exec (SLoop b) r h r h ONorm
| E_loop_step b r h r1 h1 r2 h2 o o1 :
    exec b r h r1 h1 o1 -> (o1 = ONorm \/ o1 = OCont) ->
    exec (SLoop b) r1 h1 r2 h2 o -> exec (SLoop b) r h r2 h2 o
| E_loop_brk b r h r1 h1 : exec b r h r1 h1 OBrk -> exec (SLoop b) r h r1 h1 ONorm
| E_loop_out b r h r1 h1 o : exec b r h r1 h1 o -> (o = OExc \/ exists v, o = ORet v) ->
    exec (SLoop b) r h r1 h1 o
| E_break r h : exec SBreak r h r h OBrk
| E_continue r h : exec SContinue r h r h OCont
| E_return x r h : exec (SReturn x) r h r h (ORet (r x))
| E_raise_stmt r h : exec SRaise r h r h OExc
| E_try_ok b hd r h r1 h1 o : o <> OExc -> exec b r h r1 h1 o -> exec (STry b hd) r h r1 h1 o
| E_try_exc b hd r h r1 h1 r2 h2 o :
    exec b r h r1 h1 OExc -> exec hd r1 h1 r2 h2 o -> exec (STry b hd) r h r2 h2 o.
End Exec.

(* the semantics of calls, by call depth: a call runs the body of the callee found in the table *)
Fixpoint callsem (tbl:table) (n:nat) : string -> list val -> heap -> heap -> out -> Prop :=
  match n with
  | 0 => fun _ _ _ _ _ => False
  | S n' => fun f vs h h' o =>
      exists m r', find f tbl = Some m /\
                   exec (callsem tbl n') (m_body m) (bind (m_params m) vs env0) h r' h' o
  end.

(* ------------------------------ abstract interpretation ------------------------------ *)
(* ANew: not a reference to an object that existed when the method was entered; AParam i: exactly
   the i-th argument; AMay i: one of the two; AOld: anything *)
Inductive aval := ANew | AParam (i:nat) | AMay (i:nat) | AOld.
Definition aval_eqb (a b:aval) : bool :=
  match a, b with
  | ANew, ANew => true | AOld, AOld => true
  | AParam i, AParam j => Nat.eqb i j | AMay i, AMay j => Nat.eqb i j
  | _, _ => false
  end.
Definition ajoin (a b:aval) : aval :=
  if aval_eqb a b then a else
  match a, b with
  | ANew, AParam i | AParam i, ANew | ANew, AMay i | AMay i, ANew => AMay i
  | AParam i, AMay j | AMay j, AParam i => if Nat.eqb i j then AMay i else AOld
  | _, _ => AOld
  end.
Definition aleb (a b:aval) : bool :=
  aval_eqb a b || aval_eqb b AOld ||
  match a, b with
  | ANew, AMay _ => true
  | AParam i, AMay j => Nat.eqb i j
  | _, _ => false
  end.

Definition aenv := list (var * aval).
Fixpoint alook (A:aenv) (x:var) : aval :=
  match A with [] => AOld | (y, a) :: t => if String.eqb x y then a else alook t x end.
Fixpoint aset (A:aenv) (x:var) (a:aval) : aenv :=
  match A with
  | [] => []                                         (* a variable the method does not declare stays AOld *)
  | (y, b) :: t => if String.eqb x y then (y, a) :: t else (y, b) :: aset t x a
  end.
Definition ejoin (A B:aenv) : aenv := map (fun p => (fst p, ajoin (snd p) (alook B (fst p)))) A.
Definition eleb (A B:aenv) : bool := forallb (fun p => aleb (alook A (fst p)) (snd p)) B.
Definition ojoin (a b:option aenv) : option aenv :=
  match a, b with None, x => x | x, None => x | Some A, Some B => Some (ejoin A B) end.
Definition oleb (a:option aenv) (B:aenv) : bool := match a with None => true | Some A => eleb A B end.
Definition orjoin (a b:option aval) : option aval :=
  match a, b with None, x => x | x, None => x | Some p, Some q => Some (ajoin p q) end.

Inductive witem := WAny | WField (i:nat) (k:key) | WAll (i:nat).
Definition witem_eqb (a b:witem) : bool :=
  match a, b with
  | WAny, WAny => true
  | WField i k, WField j l => Nat.eqb i j && String.eqb k l
  | WAll i, WAll j => Nat.eqb i j
  | _, _ => false
  end.
Definition wmem (w:witem) (l:list witem) : bool := existsb (witem_eqb w) l.
Definition wadd (w:witem) (l:list witem) : list witem := if wmem w l then l else (l ++ [w])%list.
Definition wunion (a b:list witem) : list witem := fold_left (fun acc w => wadd w acc) b a.
Definition wsub (a b:list witem) : bool := forallb (fun w => wmem w b) a.

Record summary := mks { s_w : list witem; s_r : aval }.
Definition sigma := list (string * summary).
Fixpoint slook (S:sigma) (f:string) : summary :=
  match S with [] => mks [WAny] AOld | (g, s) :: t => if String.eqb f g then s else slook t f end.

Record ares := mkr { r_norm : option aenv; r_brk : option aenv; r_cont : option aenv; r_ret : option aval; r_w : list witem }.
Definition rtop (A:aenv) : ares :=
  let T := map (fun p => (fst p, AOld)) A in mkr (Some T) (Some T) (Some T) (Some AOld) [WAny].

(* write effect of storing through a variable with abstract value a *)
Definition wstore (a:aval) (k:option key) : list witem :=
  match a with
  | ANew => []
  | AParam i | AMay i => match k with Some k => [WField i k] | None => [WAll i] end
  | AOld => [WAny]
  end.
(* effects of a call, seen from the caller *)
Definition wcall (A:aenv) (ys:list var) (w:witem) : list witem :=
  match w with
  | WAny => [WAny]
  | WField i k => match nth_error ys i with Some y => wstore (alook A y) (Some k) | None => [] end
  | WAll i => match nth_error ys i with Some y => wstore (alook A y) None | None => [] end
  end.
Definition rcall (A:aenv) (ys:list var) (r:aval) : aval :=
  match r with
  | ANew => ANew
  | AParam i => match nth_error ys i with Some y => alook A y | None => ANew end
  | AMay i => match nth_error ys i with Some y => ajoin (alook A y) ANew | None => ANew end
  | AOld => AOld
  end.

(* variables assigned by a statement (for the exception handler's entry state) *)
Fixpoint assigned (s:stmt) : list var :=
  match s with
  | SAssign x _ => [x]
  | SSeq a b | SIf a b | STry a b => (assigned a ++ assigned b)%list
  | SLoop b => assigned b
  | _ => []
  end.
Definition forget (A:aenv) (xs:list var) : aenv :=
  map (fun p => if existsb (String.eqb (fst p)) xs then (fst p, AOld) else p) A.

Fixpoint iter {X} (n:nat) (f:X -> X) (x:X) : X := match n with 0 => x | S n' => iter n' f (f x) end.

(* widening steps tried for a loop invariant / rounds of the summary iteration: any value is sound,
   the result is CHECKED (eleb / stable); too small a value only loses precision *)
Definition loop_fuel := 3.
Definition summary_rounds := 6.

Section An.
Variable Sg : sigma.
Fixpoint an (s:stmt) (A:aenv) : ares :=
  match s with
  | SSkip => mkr (Some A) None None None []
  | SAssign x (RVar y) => mkr (Some (aset A x (alook A y))) None None None []
  | SAssign x RFresh => mkr (Some (aset A x ANew)) None None None []
  | SAssign x RAny => mkr (Some (aset A x AOld)) None None None []
  | SAssign x (RCall f ys) =>
      let sm := slook Sg f in
      mkr (Some (aset A x (rcall A ys (s_r sm)))) None None None
          (fold_left (fun acc w => wunion acc (wcall A ys w)) (s_w sm) [])
  | SStore x k => mkr (Some A) None None None (wstore (alook A x) (Some k))
  | SStoreAny x => mkr (Some A) None None None (wstore (alook A x) None)
  | SSeq a b =>
      let ra := an a A in
      match r_norm ra with
      | None => ra
      | Some A1 =>
          let rb := an b A1 in
          mkr (r_norm rb) (ojoin (r_brk ra) (r_brk rb)) (ojoin (r_cont ra) (r_cont rb))
              (orjoin (r_ret ra) (r_ret rb)) (wunion (r_w ra) (r_w rb))
      end
  | SIf a b =>
      let ra := an a A in let rb := an b A in
      mkr (ojoin (r_norm ra) (r_norm rb)) (ojoin (r_brk ra) (r_brk rb)) (ojoin (r_cont ra) (r_cont rb))
          (orjoin (r_ret ra) (r_ret rb)) (wunion (r_w ra) (r_w rb))
  | SLoop b =>
      let stepf := fun X => match ojoin (Some X) (ojoin (r_norm (an b X)) (r_cont (an b X))) with Some Y => Y | None => X end in
      let Ainv := iter loop_fuel stepf A in
      let rb := an b Ainv in
      if eleb A Ainv && oleb (r_norm rb) Ainv && oleb (r_cont rb) Ainv
      then mkr (ojoin (Some Ainv) (r_brk rb)) None None (r_ret rb) (r_w rb)
      else rtop A
  | SBreak => mkr None (Some A) None None []
  | SContinue => mkr None None (Some A) None []
  | SReturn x => mkr None None None (Some (alook A x)) []
  | SRaise => mkr None None None None []
  | STry b hd =>
      let rb := an b A in
      let rh := an hd (forget A (assigned b)) in
      mkr (ojoin (r_norm rb) (r_norm rh)) (ojoin (r_brk rb) (r_brk rh)) (ojoin (r_cont rb) (r_cont rh))
          (orjoin (r_ret rb) (r_ret rh)) (wunion (r_w rb) (r_w rh))
  end.

Fixpoint init_params (ps:list var) (i:nat) : aenv :=
  match ps with [] => [] | p :: t => (p, AParam i) :: init_params t (S i) end.
Definition init_env (m:meth) : aenv := (init_params (m_params m) 0 ++ map (fun x => (x, ANew)) (m_locals m))%list.

(* a method that falls off its end returns None: a scalar *)
Definition an_meth (m:meth) : summary :=
  let r := an (m_body m) (init_env m) in
  mks (r_w r) (match orjoin (r_ret r) (match r_norm r with Some _ => Some ANew | None => None end) with
               | Some a => a | None => ANew end).
End An.

Definition sum_leb (a b:summary) : bool := wsub (s_w a) (s_w b) && aleb (s_r a) (s_r b).
Definition stable (t:table) (S:sigma) : bool :=
  forallb (fun fm => sum_leb (an_meth S (snd fm)) (slook S (fst fm))) t.
(* summaries by Kleene iteration from the bottom *)
Definition sig0 (t:table) : sigma := map (fun fm => (fst fm, mks [] ANew)) t.
Definition sig_step (t:table) (S:sigma) : sigma :=
  map (fun fm => (fst fm, let a := an_meth S (snd fm) in let o := slook S (fst fm) in
                          mks (wunion (s_w o) (s_w a)) (ajoin (s_r o) (s_r a)))) t.
Definition summaries (t:table) : sigma := iter summary_rounds (sig_step t) (sig0 t).

