From Coq Require Import List String ZArith Bool NArith.
Import ListNotations.
Open Scope string_scope.
From CV Require Import Base.Corr Fs.Fs.

Fixpoint bytes_eqb (a b:bytes) : bool :=
  match a, b with [], [] => true | x :: a', y :: b' => N.eqb x y && bytes_eqb a' b' | _, _ => false end.
Definition fmeta_eqb (a b:fmeta) : bool := bytes_eqb (fst a) (fst b) && N.eqb (snd a) (snd b).
Definition mem_path (p:string) (w:wdir) : bool := match lookup p w with Some _ => true | None => false end.

(* 0 = the model's final working directory equals the observed one; otherwise 1 + index of the
   first observed path that differs, or 1000 + index of a model path the implementation lacks *)
Definition fs_check (t:list string * list wop * wdir * wdir) : list Z :=
  let '(tcs, ops, w0, observed) := t in
  let final := reduce_fs tcs ops w0 in
  let bad1 := filter (fun ip => match lookup (fst (snd ip)) final with
                                | Some m => negb (fmeta_eqb m (snd (snd ip))) | None => true end)
                     (combine (seq 0 (List.length observed)) observed) in
  let bad2 := filter (fun ip => negb (mem_path (fst (snd ip)) observed)) (combine (seq 0 (List.length final)) final) in
  map (fun ip => Z.of_nat (1 + fst ip)) bad1 ++ map (fun ip => Z.of_nat (1000 + fst ip)) bad2.
