(* Model M7: the working directory as a finite map path -> (bytes, mode) and the operations
   CVise.reduce / TestManager perform on it: backup_test_cases (copy2 to X.orig if absent),
   commits over the test cases (process_result / cache replay / new(): shutil.copy, which also
   copies the permission bits of the source), restore_mode after a completed pass, and the
   creation of cvise_bug_* / cvise_extra_* report directories.  Candidate work happens under
   mkdtemp roots outside the working directory (Fs.test folders below). *)
From Coq Require Import List String ZArith Bool NArith.
Import ListNotations.
Open Scope string_scope.

Definition bytes := list N.
Definition fmeta := (bytes * N)%type.                   (* contents, st_mode *)
Definition wdir := list (string * fmeta).               (* association list, first match wins *)

Fixpoint lookup (p:string) (w:wdir) : option fmeta :=
  match w with [] => None | (q, m) :: t => if String.eqb p q then Some m else lookup p t end.
Fixpoint write (p:string) (m:fmeta) (w:wdir) : wdir :=
  match w with
  | [] => [(p, m)]
  | (q, m') :: t => if String.eqb p q then (q, m) :: t else (q, m') :: write p m t
  end.

Definition orig_of (x:string) : string := x ++ ".orig".

(* backup_test_cases: for f in test_cases: if not exists(f.orig): copy2(f, f.orig) *)
Fixpoint backup (tcs:list string) (w:wdir) : wdir :=
  match tcs with
  | [] => w
  | x :: t =>
    let w' := match lookup (orig_of x) w, lookup x w with
              | None, Some m => write (orig_of x) m w
              | _, _ => w end in
    backup t w'
  end.

(* a write C-Vise performs after the backup *)
Inductive wop :=
| Commit (x:string) (content:bytes) (mode:N)    (* shutil.copy(candidate, X): bytes and mode of the candidate *)
| Restore (x:string) (mode:N)                   (* restore_mode: chmod to the mode recorded at start *)
| Report (dir:string) (files:list (string * fmeta)).   (* a report directory with its files *)

Definition apply_wop (w:wdir) (o:wop) : wdir :=
  match o with
  | Commit x c md => write x (c, md) w
  | Restore x md => match lookup x w with Some (c, _) => write x (c, md) w | None => w end
  | Report d fs => fold_left (fun acc pf => write (d ++ "/" ++ fst pf) (snd pf) acc) fs w
  end.

(* the operations a reduction may perform: commits and restores on the named test cases only,
   reports under the reserved prefixes only *)
Fixpoint starts_with (p s:string) : bool :=
  match p, s with
  | EmptyString, _ => true
  | String a p', String b s' => Ascii.eqb a b && starts_with p' s'
  | _, _ => false
  end.
Definition reserved (p:string) : bool := starts_with "cvise_bug_" p || starts_with "cvise_extra_" p.
Definition wop_ok (tcs:list string) (o:wop) : bool :=
  match o with
  | Commit x _ _ | Restore x _ => existsb (String.eqb x) tcs
  | Report d _ => reserved d
  end.

Definition reduce_fs (tcs:list string) (ops:list wop) (w:wdir) : wdir :=
  fold_left apply_wop ops (backup tcs w).

(* ---- a candidate folder: exactly the test cases at their relative paths (C05) ---- *)
Definition test_folder (tcs:list string) (w:wdir) (cur:string) (cand:bytes) : wdir :=
  map (fun x => (x, match lookup x w with
                    | Some (c, md) => if String.eqb x cur then (cand, md) else (c, md)
                    | None => ([], 0%N) end)) tcs.
