From Coq Require Import List String ZArith Bool NArith Lia.
Import ListNotations.
Open Scope string_scope.
From CV Require Import Fs.Fs.

Lemma lookup_write_same p m w : lookup p (write p m w) = Some m.
Proof.
  induction w as [|[q m'] t IH]; simpl; [rewrite String.eqb_refl; auto|].
  destruct (String.eqb p q) eqn:E; simpl; rewrite ?E, ?String.eqb_refl; auto.
Qed.
Lemma lookup_write_other p q m w : p <> q -> lookup p (write q m w) = lookup p w.
Proof.
  intros NE. induction w as [|[r m'] t IH]; simpl.
  - destruct (String.eqb p q) eqn:E; auto. apply String.eqb_eq in E. contradiction.
  - destruct (String.eqb q r) eqn:E; simpl.
    + apply String.eqb_eq in E. subst r. destruct (String.eqb p q) eqn:E2; auto.
      apply String.eqb_eq in E2. contradiction.
    + destruct (String.eqb p r); auto.
Qed.

Lemma length_append x y : String.length (x ++ y) = String.length x + String.length y.
Proof. induction x as [|a x IH]; simpl; auto. Qed.
Lemma append_inj_len : forall x y s t, String.length x = String.length y -> x ++ s = y ++ t -> x = y /\ s = t.
Proof.
  induction x as [|a x IH]; destruct y as [|b y]; simpl; intros s t L H; try discriminate; auto.
  inversion H; subst. inversion L. destruct (IH y s t H1 H2) as (-> & ->). auto.
Qed.
Lemma orig_inj x y : orig_of x = orig_of y -> x = y.
Proof.
  unfold orig_of. intros H.
  assert (L : String.length x = String.length y).
  { apply (f_equal String.length) in H. rewrite !length_append in H. simpl in H. lia. }
  destruct (append_inj_len x y _ _ L H). auto.
Qed.

(* ---------- backup_test_cases ---------- *)
Lemma backup_keeps : forall tcs w p m, lookup p w = Some m -> lookup p (backup tcs w) = Some m.
Proof.
  induction tcs as [|x t IH]; intros w p m H; simpl; auto.
  apply IH. destruct (lookup (orig_of x) w) eqn:O; auto. destruct (lookup x w) eqn:X; auto.
  rewrite lookup_write_other; auto. intro; subst. congruence.
Qed.

Lemma backup_frame : forall tcs w p, lookup p w = None ->
  (forall x, In x tcs -> p <> orig_of x) -> lookup p (backup tcs w) = None.
Proof.
  induction tcs as [|x t IH]; intros w p H NO; simpl; auto.
  apply IH; [|intros y Hy; apply NO; right; auto].
  destruct (lookup (orig_of x) w) eqn:O; auto. destruct (lookup x w) eqn:X; auto.
  rewrite lookup_write_other; auto. apply NO. left; auto.
Qed.

Lemma backup_creates : forall tcs w x m, In x tcs ->
  lookup (orig_of x) w = None -> lookup x w = Some m -> lookup (orig_of x) (backup tcs w) = Some m.
Proof.
  induction tcs as [|y t IH]; intros w x m Hin O X; simpl; [contradiction|].
  destruct (String.eqb y x) eqn:E.
  - apply String.eqb_eq in E. subst y. rewrite O, X. apply backup_keeps. apply lookup_write_same.
  - assert (NE : y <> x) by (intro; subst; rewrite String.eqb_refl in E; discriminate).
    destruct Hin as [->|Hin]; [contradiction|].
    destruct (lookup (orig_of y) w) eqn:OY; [apply IH; auto|].
    destruct (lookup y w) eqn:Y; [|apply IH; auto].
    apply IH; auto.
    + rewrite lookup_write_other; auto. intro EQ. apply orig_inj in EQ. congruence.
    + rewrite lookup_write_other; auto. intro EQ. subst x. congruence.
Qed.

(* ---------- the writes after the backup ---------- *)
Lemma prefix_app p d r : starts_with p d = true -> starts_with p (d ++ r) = true.
Proof.
  revert d. induction p as [|a p IH]; intros d H; simpl; auto.
  destruct d as [|b d]; simpl in *; [discriminate|].
  apply andb_true_iff in H. destruct H as (H1 & H2). rewrite H1. simpl. apply IH. exact H2.
Qed.

Lemma report_frame : forall fs d w p, reserved d = true -> reserved p = false ->
  lookup p (fold_left (fun acc pf => write (d ++ "/" ++ fst pf) (snd pf) acc) fs w) = lookup p w.
Proof.
  induction fs as [|[f m] t IH]; intros d w p RD RP; simpl; auto.
  rewrite IH; auto. apply lookup_write_other. intro; subst p.
  unfold reserved in *. apply orb_true_iff in RD. apply orb_false_iff in RP. destruct RP as (R1 & R2).
  destruct RD as [RD|RD]; [rewrite (prefix_app _ _ _ RD) in R1|rewrite (prefix_app _ _ _ RD) in R2]; discriminate.
Qed.

Lemma apply_wop_frame tcs o w p : wop_ok tcs o = true ->
  ~ In p tcs -> reserved p = false -> lookup p (apply_wop w o) = lookup p w.
Proof.
  intros OK NI RP. destruct o as [x c md|x md|d fs]; simpl in *.
  - apply lookup_write_other. intro; subst. apply existsb_exists in OK. destruct OK as (y & Hy & E).
    apply String.eqb_eq in E. subst. contradiction.
  - destruct (lookup x w) as [[c m]|]; auto. apply lookup_write_other. intro; subst.
    apply existsb_exists in OK. destruct OK as (y & Hy & E). apply String.eqb_eq in E. subst. contradiction.
  - apply report_frame; auto.
Qed.

Lemma ops_frame tcs : forall ops w p, forallb (wop_ok tcs) ops = true ->
  ~ In p tcs -> reserved p = false -> lookup p (fold_left apply_wop ops w) = lookup p w.
Proof.
  induction ops as [|o t IH]; intros w p OK NI RP; simpl; auto.
  simpl in OK. apply andb_true_iff in OK. destruct OK as (O1 & O2).
  rewrite IH; auto. eapply apply_wop_frame; eauto.
Qed.

(* C04: X.orig holds the bytes (and attributes) X had before C-Vise first touched it, an
   existing X.orig is never overwritten, and nothing but the test cases and the report
   directories changes — for every sequence of commits, restores and reports. *)
Theorem reduce_fs_spec tcs ops w :
  forallb (wop_ok tcs) ops = true ->
  (forall x, In x tcs -> ~ In (orig_of x) tcs /\ reserved (orig_of x) = false) ->
  (forall x m, In x tcs -> lookup x w = Some m ->
     lookup (orig_of x) (reduce_fs tcs ops w) =
     match lookup (orig_of x) w with Some old => Some old | None => Some m end) /\
  (forall p, ~ In p tcs -> reserved p = false -> (forall x, In x tcs -> p <> orig_of x) ->
     lookup p (reduce_fs tcs ops w) = lookup p w).
Proof.
  intros OK NO. unfold reduce_fs. split.
  - intros x m Hin X. destruct (NO x Hin) as (N1 & N2).
    rewrite (ops_frame tcs); auto.
    destruct (lookup (orig_of x) w) eqn:O.
    + apply backup_keeps. exact O.
    + apply backup_creates; auto.
  - intros p NI RP NOR. rewrite (ops_frame tcs); auto.
    destruct (lookup p w) eqn:L.
    + apply backup_keeps. exact L.
    + apply backup_frame; auto.
Qed.

(* restore_mode at the end of a completed pass puts every test case back to its recorded mode *)
Lemma restore_mode_spec x md w c m0 : lookup x w = Some (c, m0) ->
  lookup x (apply_wop w (Restore x md)) = Some (c, md).
Proof. intros H. simpl. rewrite H. apply lookup_write_same. Qed.

(* C05: a candidate folder holds exactly the test cases, the current one with the candidate,
   every other one byte-identical to its accepted version *)
Theorem test_folder_spec tcs w cur cand :
  map fst (test_folder tcs w cur cand) = tcs /\
  (forall x c md, In x tcs -> lookup x w = Some (c, md) ->
     In (x, (if String.eqb x cur then cand else c, md)) (test_folder tcs w cur cand)).
Proof.
  unfold test_folder. split.
  - rewrite map_map. simpl. apply map_id.
  - intros x c md Hin L. apply in_map_iff. exists x. split; auto. rewrite L.
    destruct (String.eqb x cur); reflexivity.
Qed.
